"""Runner library for the bcl verification framework (python3 stdlib only).

Engines (DESIGN.md 2.2):  MC  = tlc on an MC_*/Gen_* module (invariants, properties)
                          GEN = tlc Gen_* module printing CASE lines -> vh replay-* against the real code
                          TV  = vh drive-* writes ndjson traces of the real code -> tlc Trace_* module accepts or rejects
Exit codes: 0 held / 1 confirmed violation / 2 inconclusive (tool failure, timeout, vacuous, dead driver).
"""
import json, os, re, shutil, subprocess, sys, time, hashlib, signal

VERIF = os.path.dirname(os.path.dirname(os.path.abspath(__file__)))
REPO = os.environ.get("VERIF_REPO", "/repo")
SPEC = os.path.join(VERIF, "spec")
HARNESS = os.path.join(VERIF, "harness")
OUT = os.path.join(VERIF, "out")
BIN = os.path.join(OUT, "bin")
GOENV = dict(GOFLAGS="-mod=mod", GOPROXY="off", GOSUMDB="off", GOTOOLCHAIN="local", CGO_ENABLED="1")


class Inconclusive(Exception):
    pass


def log(*a):
    print(*a, flush=True)


def sh(cmd, cwd=None, env=None, timeout=None, check=True, capture=True):
    e = dict(os.environ)
    e.update(GOENV)
    if env:
        e.update(env)
    p = subprocess.run(cmd, cwd=cwd, env=e, timeout=timeout, stdout=subprocess.PIPE if capture else None,
                       stderr=subprocess.STDOUT if capture else None, text=True)
    if check and p.returncode != 0:
        raise Inconclusive("command failed (%d): %s\n%s" % (p.returncode, " ".join(cmd), (p.stdout or "")[-4000:]))
    return p


_built = {}


def build_harness(race=False):
    """Build vh from the working tree of the repository under test (/repo; VERIF_REPO overrides it for experiments on scratch
    copies) with the hooks enabled (tag verif). The module file is generated so that the replace directive points there."""
    key = "vh-race" if race else "vh"
    if key in _built:
        return _built[key]
    os.makedirs(BIN, exist_ok=True)
    sums = open(os.path.join(REPO, "go.sum")).read()
    extra = os.path.join(HARNESS, "go.sum.extra")
    if os.path.exists(extra):
        sums += open(extra).read()
    mod = open(os.path.join(HARNESS, "go.mod")).read().replace("=> /repo", "=> " + REPO)
    modfile = os.path.join(OUT, "harness-%d.mod" % os.getpid())
    with open(modfile, "w") as f:
        f.write(mod)
    with open(modfile[:-4] + ".sum", "w") as f:
        f.write(sums)
    with open(os.path.join(HARNESS, "go.sum"), "w") as f:
        f.write(sums)
    out = os.path.join(BIN, "%s-%d" % (key, os.getpid()))
    cmd = ["go", "build", "-modfile", modfile, "-tags", "verif", "-o", out]
    if race:
        cmd.append("-race")
    cmd.append("./cmd/vh")
    t = time.time()
    try:
        sh(cmd, cwd=HARNESS, timeout=900)
    finally:
        for x in (modfile, modfile[:-4] + ".sum"):
            try:
                os.unlink(x)
            except OSError:
                pass
    log("[build] %s from %s (tags=verif%s) in %.1fs" % (key, REPO, ",race" if race else "", time.time() - t))
    _built[key] = out
    return out


def build_cli():
    """Build cmd/bcl from /repo's working tree."""
    if "bcl" in _built:
        return _built["bcl"]
    os.makedirs(BIN, exist_ok=True)
    out = os.path.join(BIN, "bcl-%d" % os.getpid())
    sh(["go", "build", "-o", out, "./cmd/bcl"], cwd=REPO, timeout=600)
    _built["bcl"] = out
    return out


class Run:
    """One invocation of one property's check."""

    def __init__(self, pid, tier, seed, level="model_checking"):
        self.pid, self.tier, self.seed, self.level = pid, tier, seed, level
        self.t0 = time.time()
        self.scratch = os.path.join(OUT, "run-%s-%d" % (pid, os.getpid()))
        shutil.rmtree(self.scratch, ignore_errors=True)
        shutil.rmtree(os.path.join(OUT, pid), ignore_errors=True)
        os.makedirs(self.scratch)
        self.states = 0
        self.transitions = 0
        self.evaluations = 0
        self.nontrivial = 0
        self.traces = 0
        self.samples = []
        self.stages = []
        self.violations = []   # dicts: {why, shape, case, observed, stage}
        self.known = []        # (finding, count)
        self.drift = []
        self.assumptions = []
        self.rule = ""
        self.exhaustive = None
        self.extra = {}
        self.n_tlc = 0
        self.inconclusive = None

    @property
    def quick(self):
        return self.tier == "quick"

    # ---------------------------------------------------------------- TLC
    def tlc(self, module, cfg, workers=16, timeout=900, simulate=None, depth=None, consumer=None,
            files=None, deque=False, max_cases=None, coverage=False, expect_violation=None, label=None):
        """Run TLC on spec/<module>.tla with the given cfg text, in a scratch copy of the spec directory.

        consumer: a Popen whose stdin receives the CASE lines TLC prints (GEN engine); closed at the end.
        Returns dict(ok, states, distinct, depth, cases, out, violated)."""
        self.n_tlc += 1
        label = label or module
        d = os.path.join(self.scratch, "tlc-%d-%s" % (self.n_tlc, module))
        os.makedirs(d)
        for f in os.listdir(SPEC):
            if f.endswith(".tla"):
                shutil.copy(os.path.join(SPEC, f), d)
        with open(os.path.join(d, module + ".cfg"), "w") as f:
            f.write(cfg)
        for name, content in (files or {}).items():
            if isinstance(content, str) and content.startswith("@"):
                shutil.copy(content[1:], os.path.join(d, name))
            else:
                with open(os.path.join(d, name), "w") as f:
                    f.write(content)
        cmd = ["tlc", "-workers", str(workers), "-metadir", os.path.join(d, "meta"), "-config", module + ".cfg"]
        if simulate is not None:
            cmd += ["-simulate", "num=%d" % simulate, "-depth", str(depth or 20), "-seed", str(self.seed)]
        if coverage:
            cmd += ["-coverage", "1"]
        cmd.append(module + ".tla")
        env = dict(os.environ)
        jto = "-Xss512m"
        if deque:
            jto += " -Dtlc2.tool.queue.IStateQueue=StateDeque"
        env["JAVA_TOOL_OPTIONS"] = jto
        t = time.time()
        outp = os.path.join(d, "tlc.out")
        ncases = 0
        p = subprocess.Popen(cmd, cwd=d, env=env, stdout=subprocess.PIPE, stderr=subprocess.STDOUT, text=True,
                             bufsize=1 << 20, start_new_session=True)
        timed_out = False
        capped = False
        try:
            with open(outp, "w") as lf:
                deadline = t + timeout
                for line in p.stdout:
                    if line.startswith('<<"CASE"'):
                        ncases += 1
                        if consumer is not None:
                            try:
                                consumer.stdin.write(line)
                            except BrokenPipeError:
                                raise Inconclusive("replayer died while reading cases (%s)" % label)
                        if max_cases and ncases >= max_cases:
                            capped = True
                            break
                    else:
                        lf.write(line)
                    if time.time() > deadline:
                        timed_out = True
                        break
        finally:
            if p.poll() is None and (timed_out or capped):
                try:
                    os.killpg(p.pid, signal.SIGKILL)
                except ProcessLookupError:
                    pass
            p.wait()
        text = open(outp).read()
        wall = time.time() - t
        m = re.findall(r"(\d+) states generated, (\d+) distinct states found", text)
        gen, dist = (int(m[-1][0]), int(m[-1][1])) if m else (0, 0)
        if simulate is not None:
            m2 = re.findall(r"(\d+) states checked", text)
            if m2:
                gen = dist = int(m2[-1])
            elif capped:
                gen = dist = ncases
        md = re.search(r"The depth of the complete state graph search is (\d+)", text)
        violated = None
        mv = re.search(r"Error: Invariant (\S+) is violated", text)
        if mv:
            violated = mv.group(1)
        elif re.search(r"Error: (Temporal properties were violated|Action property \S+ is violated|Deadlock reached)", text):
            violated = re.search(r"Error: (.*)", text).group(1)
        post_failed = bool(re.search(r"Error: Postcondition \S+ .*is false", text))
        completed = post_failed or ("Model checking completed. No error has been found" in text) or \
                    (simulate is not None and (capped or "states checked" in text or p.returncode == 0))
        res = dict(ok=False, post_failed=post_failed, states=gen, distinct=dist, depth=int(md.group(1)) if md else 0, cases=ncases, out=outp,
                   violated=violated, wall=wall, dir=d, text=text)
        stage = dict(stage=label, engine="tlc", generated=gen, distinct=dist, cases=ncases, wall_s=round(wall, 1))
        self.stages.append(stage)
        if timed_out:
            raise Inconclusive("TLC timed out after %ds on %s" % (timeout, label))
        if violated:
            stage["violated"] = violated
            if expect_violation:
                return res
            return res
        if not completed:
            tail = "\n".join(text.splitlines()[-25:])
            raise Inconclusive("TLC failed on %s (exit %s):\n%s" % (label, p.returncode, tail))
        res["ok"] = not post_failed
        self.states += dist
        self.transitions += gen
        log("[tlc] %-28s %9d generated %9d distinct %7d cases  %.1fs" % (label, gen, dist, ncases, wall))
        return res

    def mc(self, module, cfg, **kw):
        """MC engine: TLC must finish with no error; a violated invariant of the *model* is a specification problem -> exit 2."""
        r = self.tlc(module, cfg, **kw)
        if not r["ok"]:
            trace = "\n".join(r["text"].splitlines()[-60:])
            raise Inconclusive("model-level check failed in %s: %s\n%s" % (module, r["violated"], trace))
        return r

    def apalache(self, module, inv, length=0, timeout=300, label=None):
        """Symbolic check of a lemma with Apalache (bounded by `length`); failure of the tool is inconclusive, never a violation."""
        label = label or ("apalache:" + module)
        d = os.path.join(self.scratch, "apa-%s" % module)
        os.makedirs(d, exist_ok=True)
        shutil.copy(os.path.join(SPEC, module + ".tla"), d)
        t = time.time()
        try:
            p = subprocess.run(["apalache-mc", "check", "--inv=" + inv, "--length=%d" % length, "--out-dir=" + os.path.join(d, "out"), module + ".tla"],
                               cwd=d, stdout=subprocess.PIPE, stderr=subprocess.STDOUT, text=True, timeout=timeout)
        except subprocess.TimeoutExpired:
            raise Inconclusive("Apalache timed out on " + module)
        ok = "EXITCODE: OK" in p.stdout
        self.stages.append(dict(stage=label, engine="apalache", ok=ok, wall_s=round(time.time() - t, 1)))
        log("[apa] %-28s %s  %.1fs" % (label, "no error" if ok else "FAILED", time.time() - t))
        if not ok:
            raise Inconclusive("Apalache did not establish %s of %s:\n%s" % (inv, module, p.stdout[-1500:]))
        self.extra.setdefault("apalache_lemmas", []).append("%s!%s" % (module, inv))
        return True

    # ---------------------------------------------------------------- harness
    def vh_start(self, args, race=False):
        exe = build_harness(race)
        self.n_tlc += 1
        res = os.path.join(self.scratch, "vh-%d.json" % self.n_tlc)
        # what the harness (or the library under test, which may write to the process's stderr) prints goes to a file: a pipe nobody
        # reads while TLC is still feeding cases would fill up and stop the harness
        logp = res[:-5] + ".out"
        env = dict(os.environ)
        racelog = None
        if race:
            racelog = os.path.join(self.scratch, "race-%d" % self.n_tlc)
            env["GORACE"] = "exitcode=0 log_path=%s history_size=3" % racelog
        p = subprocess.Popen([exe] + args + ["--result", res], stdin=subprocess.PIPE, stdout=open(logp, "w"),
                             stderr=subprocess.STDOUT, text=True, bufsize=1 << 20, env=env)
        p._racelog = racelog
        p._log = logp
        p._result = res
        p._args = args
        p._t0 = time.time()
        return p

    def vh_finish(self, p, stage, timeout=1800):
        try:
            if p.stdin:
                p.stdin.close()
        except BrokenPipeError:
            pass
        try:
            p.wait(timeout=timeout)
        except subprocess.TimeoutExpired:
            p.kill()
            raise Inconclusive("harness timed out in %s" % stage)
        try:
            out = open(p._log, errors="replace").read()[-20000:]
        except OSError:
            out = ""
        if p.returncode != 0 or not os.path.exists(p._result):
            raise Inconclusive("harness failed in %s (exit %s): %s" % (stage, p.returncode, (out or "")[-3000:]))
        if getattr(p, "_racelog", None):
            self.race_reports(p._racelog, stage)
        s = json.load(open(p._result))
        self.absorb(s, stage, time.time() - p._t0)
        return s

    def vh(self, args, stage, input_path=None, race=False, timeout=1800):
        exe = build_harness(race)
        self.n_tlc += 1
        res = os.path.join(self.scratch, "vh-%d.json" % self.n_tlc)
        t = time.time()
        cmd = [exe] + args + ["--result", res]
        if input_path:
            cmd += ["--in", input_path]
        env = dict(os.environ)
        racelog = None
        if race:
            racelog = os.path.join(self.scratch, "race-%d" % self.n_tlc)
            env["GORACE"] = "exitcode=0 log_path=%s history_size=3" % racelog
        try:
            p = subprocess.run(cmd, stdout=subprocess.PIPE, stderr=subprocess.STDOUT, text=True, timeout=timeout, env=env)
        except subprocess.TimeoutExpired:
            raise Inconclusive("harness timed out in %s" % stage)
        if p.returncode != 0 or not os.path.exists(res):
            if self.died_in_library(p.stdout or "", stage):
                return {}
            raise Inconclusive("harness failed in %s (exit %s): %s" % (stage, p.returncode, (p.stdout or "")[-3000:]))
        s = json.load(open(res))
        self.absorb(s, stage, time.time() - t)
        if racelog:
            self.race_reports(racelog, stage)
        return s

    def died_in_library(self, out, stage):
        """The harness process was killed by a panic in a goroutine that package bcl itself started (the drivers recover panics in
        their own goroutines; one in the library's goroutines takes the caller's process down): that is an outcome, not a failure of
        the driver."""
        m = re.search(r"^panic: (.*)$", out, re.M)
        if not m or not re.search(r"created by github\.com/wkhere/bcl\.", out):
            return False
        fn = re.search(r"github\.com/wkhere/bcl\.([\w\.\(\)\*]+)\(", out[m.start():])
        self.violations.append(dict(why="the process died: panic in a goroutine started by the library (%s)" % m.group(1)[:200],
                                    shape="died:" + (fn.group(1) if fn else "?"), case=dict(fam="process", stage=stage),
                                    observed=out[m.start():m.start() + 3000], confirmed=True, stage=stage))
        return True

    def race_reports(self, prefix, stage):
        """The Go race detector is an external observer of all memory: each report with a frame of package bcl is an event that
        no behaviour of the specification contains."""
        import glob
        seen = {}
        for path in glob.glob(prefix + "*"):
            text = open(path, errors="replace").read()
            for rep in text.split("=================="):
                if "DATA RACE" not in rep or "github.com/wkhere/bcl" not in rep:
                    continue
                fns = re.findall(r"github\.com/wkhere/bcl\.([\w\.\(\)\*]+)\(", rep)
                key = "race:" + "|".join(sorted(set(fns))[:4])
                seen.setdefault(key, [0, rep.strip()[:3000]])
                seen[key][0] += 1
        for key, (n, rep) in seen.items():
            self.violations.append(dict(why="the Go race detector reports a data race inside package bcl (%d report(s))" % n, shape=key,
                                        case=dict(fam="race", stage=stage), observed=rep, confirmed=True, stage=stage, shape_total=n))
        self.extra.setdefault("race_detector_runs", 0)
        self.extra["race_detector_runs"] += 1

    def absorb(self, s, stage, wall):
        """Fold a harness summary into the run: counts, samples, mismatches -> violations, drift."""
        self.evaluations += s.get("cases", 0)
        self.nontrivial += s.get("distinct_nontrivial", 0)
        self.traces += s.get("judged", 0)
        for x in s.get("samples") or []:
            if len(self.samples) < 8:
                self.samples.append(x)
        st = dict(stage=stage, engine="vh", cases=s.get("cases", 0), judged=s.get("judged", 0), ood=s.get("ood", 0),
                  distinct=s.get("distinct", 0), nontrivial=s.get("distinct_nontrivial", 0),
                  mismatches=s.get("mismatch_count", 0), classes=s.get("classes"), wall_s=round(wall, 1))
        if s.get("extra"):
            st["extra"] = s["extra"]
        self.stages.append(st)
        log("[vh ] %-28s %9d cases %9d judged %6d ood %7d nontrivial %5d mismatches  %.1fs" % (
            stage, st["cases"], st["judged"], st["ood"], st["nontrivial"], st["mismatches"], wall))
        for k, n in (s.get("drift") or {}).items():
            self.drift.append(dict(stage=stage, kind=k, count=n))
        for ds in (s.get("drift_samples") or [])[:3]:
            log("DRIFT: %s %s" % (stage, ds))
        counts = s.get("shape_counts") or {}
        for m in s.get("mismatches") or []:
            m["stage"] = stage
            m["shape_total"] = counts.get(m.get("shape"), 1)
            self.violations.append(m)
        # shapes whose examples were capped still count
        self.extra.setdefault("mismatch_shapes", {}).update({stage + ":" + k: v for k, v in counts.items()})

    # ---------------------------------------------------------------- GEN = tlc | vh
    def gen_replay(self, module, cfg, replay_args, stage, race=False, **kw):
        p = self.vh_start(replay_args, race=race)
        try:
            r = self.tlc(module, cfg, consumer=p, label=stage + ":gen", **kw)
        except Exception:
            p.kill()
            raise
        if not r["ok"]:
            p.kill()
            raise Inconclusive("generator model failed in %s: %s" % (stage, r["violated"]))
        s = self.vh_finish(p, stage + ":replay")
        if r["cases"] == 0 or s.get("cases", 0) == 0:
            raise Inconclusive("generator produced no cases in %s" % stage)
        return r, s

    # ---------------------------------------------------------------- TV
    def trace_validate(self, module, cfg, trace_path, stage, n_traces, workers=1, deque=False, timeout=900, extra_files=None):
        """TLC must consume the whole ndjson file: the trace spec keeps the highest consumed line in TLCGet register 0
        and the POSTCONDITION compares it with Len(Trace)."""
        files = {"trace.ndjson": "@" + trace_path}
        files.update(extra_files or {})
        r = self.tlc(module, cfg, workers=workers, files=files, deque=deque, timeout=timeout, label=stage)
        return r

    def tv(self, module, constants, trace_path, stage, n_traces, redrive=None, deque=False, timeout=1200, extra_cfg="", invariants=()):
        """Trace validation: TLC must consume the whole file. On rejection the first unconsumed line identifies the trace;
        it is re-driven once from its recorded source (redrive(src_path, out_path)) and re-validated before it counts."""
        c = cfg(constants=constants, constraint="Mark", postcondition="Accepted", invariants=invariants) + extra_cfg
        r = self.tlc(module, c, workers=1, files={"trace.ndjson": "@" + trace_path}, deque=deque, timeout=timeout, label=stage)
        text = r["text"]
        m = None if r.get("violated") else re.search(r'<<"REJECTED-AT", (\d+), (\d+)>>', text)
        if r["ok"] and not m:
            self.traces += n_traces
            return True
        if not m:
            if r.get("violated"):
                mt = re.findall(r"/\\ t = (\d+)", text)
                tid = int(mt[-1]) if mt else 0
                lines = open(trace_path).read().splitlines()
                hdr = json.loads(lines[tid - 1]) if 0 < tid <= len(lines) else {}
                self.violations.append(dict(why="invariant %s of %s is violated by recorded execution %d (%s)" % (r["violated"], module, tid, hdr.get("desc", "")),
                                            shape="tv-inv:" + r["violated"], case=dict(fam="trace", id=hdr.get("id"), desc=hdr.get("desc")),
                                            observed="\n".join([l for l in text.splitlines() if l.startswith("/\\ ")][-32:]), confirmed=True, stage=stage))
                return False
            raise Inconclusive("trace validation failed without a rejection point in %s" % stage)
        at = int(m.group(1))
        lines = open(trace_path).read().splitlines()
        # the trace containing line `at` (1-based; at = first line that could not be consumed)
        start = min(at, len(lines)) - 1
        if 0 < start < len(lines) and '"e":"reset"' in lines[start].replace(" ", ""):
            start -= 1   # a reset line that cannot be consumed: the *previous* execution's final state was rejected
        while start > 0 and '"e":"reset"' not in lines[start].replace(" ", ""):
            start -= 1
        end = start + 1
        while end < len(lines) and '"e":"reset"' not in lines[end].replace(" ", ""):
            end += 1
        hdr = json.loads(lines[start])
        bad_line = lines[at - 1] if at - 1 < len(lines) else "(end of trace: final state rejected)"
        confirmed = True
        if redrive is not None and hdr.get("src") is not None:
            srcp = os.path.join(self.scratch, "redrive-%d.src" % self.n_tlc)
            with open(srcp, "w") as f:
                f.write(hdr["src"])
            outp = os.path.join(self.scratch, "redrive-%d.ndjson" % self.n_tlc)
            redrive(srcp, outp)
            r2 = self.tlc(module, c, workers=1, files={"trace.ndjson": "@" + outp}, deque=deque, timeout=timeout, label=stage + ":confirm")
            confirmed = bool(re.search(r'<<"REJECTED-AT"', r2["text"]))
        self.violations.append(dict(why="recorded execution is not a behaviour of the specification: line %d of the trace (event %d of this execution) cannot be consumed" % (at, at - start),
                                    shape="tv:" + module, case=dict(fam="trace", src=hdr.get("src"), header={k: v for k, v in hdr.items() if k not in ("dump", "src")}),
                                    observed=dict(rejected_line=bad_line[:1500], previous_line=lines[at - 2][:1500] if at >= 2 else ""),
                                    confirmed=confirmed, stage=stage))
        return False

    # ---------------------------------------------------------------- finish
    def finish(self, findings):
        """Match confirmed violations against known findings, write evidence, print verdict lines, return exit code."""
        os.makedirs(os.path.join(VERIF, "evidence"), exist_ok=True)
        real = []
        unconfirmed = 0
        known_hits = {}
        for v in self.violations:
            if not v.get("confirmed", True):
                unconfirmed += 1
                continue
            f = findings.match(self.pid, v)
            if f is not None:
                known_hits.setdefault(f["id"], [f, 0])
                known_hits[f["id"]][1] += v.get("shape_total", 1)
            else:
                real.append(v)
        for f, n in known_hits.values():
            log("KNOWN-FINDING: property=%s %s (%d case(s) this run)" % (self.pid, f["what"], n))
        code = 0
        vdir = os.path.join(OUT, self.pid)
        if real:
            os.makedirs(vdir, exist_ok=True)
            shown = {}
            for i, v in enumerate(real):
                sh_ = v.get("shape", "?")
                shown[sh_] = shown.get(sh_, 0) + 1
                if shown[sh_] > 2:
                    continue
                path = os.path.join(vdir, "violation-%d.json" % i)
                with open(path, "w") as f:
                    json.dump(dict(property=self.pid, tier=self.tier, seed=self.seed, **v), f, indent=1)
                log("VIOLATION property=%s replay=%s" % (self.pid, path))
                log("  stage=%s shape=%s why=%s" % (v.get("stage"), v.get("shape"), v.get("why")))
            code = 1
        elif unconfirmed or self.inconclusive:
            code = 2
        for d in self.drift:
            log("DRIFT: %s %s x%d (not a violation: finer than the property pins)" % (d["stage"], d["kind"], d["count"]))
        cov = dict(states=max(self.states, 0), transitions=max(self.transitions, 0),
                   traces_validated_against_impl=self.traces, samples=self.samples[:8] or ["(none)"],
                   evaluations=self.evaluations, distinct_nontrivial=self.nontrivial, rule=self.rule,
                   stages=self.stages, drift=self.drift, known_findings=[dict(id=f["id"], cases=n) for f, n in known_hits.values()],
                   unconfirmed_mismatches=unconfirmed)
        if self.exhaustive is not None:
            cov["exhaustive"] = self.exhaustive
        cov.update(self.extra)
        if self.level == "other":
            cov["explanation"] = self.extra.get("explanation", self.rule)
        ev = dict(property_id=self.pid, tier=self.tier, seed=self.seed, level=self.level, coverage=cov,
                  assumptions=self.assumptions, wall_s=round(time.time() - self.t0, 1), violations=len(real))
        if self.inconclusive:
            ev["coverage"]["inconclusive"] = self.inconclusive
        with open(os.path.join(VERIF, "evidence", self.pid + ".json"), "w") as f:
            json.dump(ev, f, indent=1)
        if code == 0:
            log("OK property=%s tier=%s seed=%d: held on everything explored (%d cases replayed/validated, %d model states) in %.0fs" % (
                self.pid, self.tier, self.seed, self.traces, self.states, time.time() - self.t0))
        elif code == 2:
            log("INCONCLUSIVE property=%s: %s" % (self.pid, self.inconclusive or "%d unreproduced mismatch(es)" % unconfirmed))
        return code

    def cleanup(self, keep=False):
        if not keep:
            shutil.rmtree(self.scratch, ignore_errors=True)
        for b in _built.values():   # per-invocation binaries
            try:
                os.unlink(b)
            except OSError:
                pass


class Findings:
    """known_findings.json: read-only at run time. A finding suppresses only the violations its matcher identifies
    (by stage family + shape + optional predicate on the case), never a whole property."""

    def __init__(self):
        p = os.path.join(VERIF, "known_findings.json")
        self.items = json.load(open(p)) if os.path.exists(p) else []

    def match(self, pid, v):
        for f in self.items:
            if f.get("fixed") or f.get("property") != pid:
                continue
            m = f.get("match", {})
            if "shape" in m and m["shape"] != v.get("shape"):
                continue
            if "shape_prefix" in m and not str(v.get("shape", "")).startswith(m["shape_prefix"]):
                continue
            if "stage_prefix" in m and not str(v.get("stage", "")).startswith(m["stage_prefix"]):
                continue
            if "why_contains" in m and m["why_contains"] not in str(v.get("why", "")):
                continue
            return f
        return None


def cfg(spec="Spec", constants=None, invariants=(), properties=(), deadlock=False, view=None, constraint=None,
        postcondition=None, action_constraint=None, init_next=None):
    lines = []
    if init_next:
        lines += ["INIT " + init_next[0], "NEXT " + init_next[1]]
    else:
        lines.append("SPECIFICATION " + spec)
    for k, v in (constants or {}).items():
        if isinstance(v, bool):
            v = "TRUE" if v else "FALSE"
        elif isinstance(v, str) and not v.startswith("{") and not v.startswith("<<"):
            v = '"%s"' % v
        lines.append("CONSTANT %s = %s" % (k, v))
    for i in invariants:
        lines.append("INVARIANT " + i)
    for p in properties:
        lines.append("PROPERTY " + p)
    if view:
        lines.append("VIEW " + view)
    if constraint:
        lines.append("CONSTRAINT " + constraint)
    if action_constraint:
        lines.append("ACTION_CONSTRAINT " + action_constraint)
    if postcondition:
        lines.append("POSTCONDITION " + postcondition)
    lines.append("CHECK_DEADLOCK " + ("TRUE" if deadlock else "FALSE"))
    return "\n".join(lines) + "\n"
