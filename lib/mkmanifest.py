#!/usr/bin/env python3
"""Regenerates /verif/MANIFEST.json from the table below (one source of truth for what is claimed)."""
import json, os, sys
sys.path.insert(0, os.path.dirname(os.path.abspath(__file__)))
import meta

V = os.path.dirname(os.path.dirname(os.path.abspath(__file__)))
props = [json.loads(l)["id"] for l in open(os.path.join(V, "properties.jsonl"))]
checks = []
na = []
for pid in props:
    m = meta.META.get(pid)
    if not m or m.get("not_applicable"):
        na.append(dict(property_id=pid, reason=(m or {}).get("not_applicable", "check not built yet in this round; see DESIGN.md section 6 for the plan")))
        continue
    checks.append(dict(
        property_id=pid,
        quick_cmd="./check %s --tier quick" % pid,
        thorough_cmd="./check %s --tier thorough" % pid,
        evidence_file="/verif/evidence/%s.json" % pid,
        replay_cmd_template="./check %s --replay {path}" % pid,
        engine=m.get("engine", "tlc+vh"),
        level_claimed=dict(category=m["level"], text=m["text"], design_ref=m.get("design_ref", "DESIGN.md section 6 / " + pid)),
        level_note=m["note"],
        technique=m["technique"],
    ))
man = dict(
    version=1,
    setup_cmd="./setup.sh",
    hooks=dict(guard="verif", enable="go build -tags verif (the harness module replaces github.com/wkhere/bcl with /repo)",
               baseline_off_cmd="cd /repo && go test -vet=off -count=1 -timeout 25m ./...",
               source_commits=meta.HOOK_COMMITS, add_only=True),
    engines=[
        dict(name="tlc", path="/verif/spec", serves_properties=[c["property_id"] for c in checks],
             kind_free_text="explicit TLA+ specification (L1 language definition + L2 machines) checked with TLC; also used as case generator and trace judge"),
        dict(name="vh", path="/verif/harness", serves_properties=[c["property_id"] for c in checks],
             kind_free_text="Go harness built from /repo's working tree with -tags verif: replays TLC-generated cases into the real code, records traces for TLC"),
        dict(name="check", path="/verif/check", serves_properties=[c["property_id"] for c in checks],
             kind_free_text="runner: builds, drives MC / GEN->replay / TV, matches known findings, writes evidence"),
    ],
    checks=checks,
    not_applicable=na,
    notes="Exit 0 held / 1 VIOLATION / 2 inconclusive (tool failure, timeout, unreproduced mismatch). VERIF_SEED and VERIF_TIER are honoured.",
)
json.dump(man, open(os.path.join(V, "MANIFEST.json"), "w"), indent=1)
print("MANIFEST.json: %d checks, %d not_applicable" % (len(checks), len(na)))
