"""What each check claims (feeds MANIFEST.json)."""
HOOK_COMMITS = ["bfa525d"]
TB = ("Trusted base: TLC 1.8, the TLA+ modules under /verif/spec (L1 is written from README/NOTE/property text, independently of the Go code), "
      "the dumb Go harness (rendering, JSON codecs, DeepEqual), Go toolchain. Exhaustive only inside the stated scopes; beyond them seeded sampling.")
GEN = "explicit TLA+ specification; TLC enumerates/simulates cases with their specified meaning; cases replayed into the real code (spec -> impl conformance)"
META = {
 "C01": dict(level="model_checking", technique=GEN,
   text="The language definition (values, operators, precedence, short-circuit, scoping) is an explicit TLA+ module; TLC enumerates every operator x operand-kind x spelling x carrier case and every two-level operator tree, plus seeded deep trees, and each case is run through the real bcl.Interpret and compared with the specified print lines, values with dynamic types, or error class.",
   note=TB + " Arithmetic outside the exactly computable domain (64-bit wrap, non-dyadic floats) is skipped as OOD."),
 "C02": dict(level="model_checking", technique=GEN,
   text="Scoping is specified denotationally (environment chain, declare-after-initialiser, field lookup outward, assignment as expression); TLC enumerates all programs of the scope family and every one is run through bcl.Interpret and compared (prints, block tree, compile vs runtime error).",
   note=TB),
 "C03": dict(level="model_checking", technique=GEN,
   text="The block tree a program denotes (types, unquoted names, last assigned field values with Go dynamic types, child keys, duplicate-key error, blocks returned with a runtime error) is computed by the specification for all sequences of block definitions in scope and compared with what bcl.Interpret returns.",
   note=TB + " Reading a child block as a value and assigning a field named like a child key are outside the property and never generated."),
 "C04": dict(level="model_checking", technique=GEN,
   text="All selector x target x block-placement programs in scope are enumerated by TLC with the specified binding, warning count and error class and replayed into bcl.Interpret.",
   note=TB),
 "C05": dict(level="model_checking", technique=GEN,
   text="The documented matching rule (tag first, case/underscore folding, type-name rule, Name field, no coercion) is an explicit TLA+ module; TLC enumerates descriptor x block cases with the required target value; the harness realises each descriptor with reflect.StructOf (or a declared type), calls Bind and Unmarshal (on the rendered BCL text) and compares with reflect.DeepEqual.",
   note=TB + " Only descriptor-expressible Go types are generated (no generic, recursive or method-bearing types)."),
 "C15": dict(level="model_checking", technique=GEN,
   text="The same specification states when a copy must fail (missing/unexported/mismatching/nil/non-struct/colliding counterpart, unusable target); TLC enumerates binding kind x target kind x descriptor x block; the real Bind must not panic, must return an error exactly there, and must leave slice targets untouched on error.",
   note=TB + " Where the property leaves the outcome open (empty block name with a non-string Name field, embedded structs) only absence of panics is required."),
 "C16": dict(level="model_checking", technique=GEN + "; verdict = equality between repeated runs of the real code chosen by the specification",
   text="The specification marks the inputs whose outcome would depend on map order (two failing entries, colliding keys) and supplies programs and rejected inputs with several diagnostics; every call is repeated in one process and in fresh processes with GOMAXPROCS 1/4/16 and must give identical dumps, outputs, diagnostics, blocks, bindings, targets and errors; Execute must leave the dump unchanged.",
   note=TB + " Determinism is observed, not proved: a difference that needs more repetitions than are run stays unseen."),
 "C17": dict(level="model_checking", technique=GEN,
   text="The grammar is an explicit precedence-climbing recogniser plus static rules in TLA+ (no error recovery); TLC enumerates all short token strings, all viable sentence prefixes with every single-token mutation, random long sentences and multi-statement programs with broken statements; the real parser must accept exactly the derivable ones, diagnose every rejection in the documented form, stay silent on acceptance and diagnose later broken statements on their own line.",
   note=TB + " Token classes stand for their members (== for !=, * for /); layout is single spaces (layout is C20's subject)."),
}
