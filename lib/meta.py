"""What each check claims (feeds MANIFEST.json)."""
HOOK_COMMITS = []
TB = ("Trusted base: TLC 1.8, the TLA+ modules under /verif/spec (L1 is written from README/NOTE/property text, independently of the Go code), "
      "the dumb Go harness (rendering, JSON codecs, DeepEqual), Go toolchain. Exhaustive only inside the stated scopes; beyond them seeded sampling.")
GEN = "explicit TLA+ specification; TLC enumerates/simulates cases with their specified meaning; cases replayed into the real code (spec -> impl conformance)"
META = {
 "C01": dict(level="model_checking", technique=GEN,
   text="The language definition (values, operators, precedence, short-circuit, scoping) is an explicit TLA+ module; TLC enumerates every operator x operand-kind x spelling x carrier case and every two-level operator tree, plus seeded deep trees, and each case is run through the real bcl.Interpret and compared with the specified print lines, values with dynamic types, or error class.",
   note=TB + " Arithmetic outside the exactly computable domain (64-bit wrap, non-dyadic floats) is skipped as OOD."),
 "C02": dict(level="model_checking", technique=GEN,
   text="Scoping is specified denotationally (environment chain, declare-after-initialiser, field lookup outward, assignment as expression); TLC enumerates all programs of the scope family and every one is run through bcl.Interpret and compared (prints, block tree, compile vs runtime error).",
   note=TB),
 "C03": dict(level="model_checking", technique=GEN,
   text="The block tree a program denotes (types, unquoted names, last assigned field values with Go dynamic types, child keys, duplicate-key error, blocks returned with a runtime error) is computed by the specification for all sequences of block definitions in scope and compared with what bcl.Interpret returns.",
   note=TB + " Reading a child block as a value and assigning a field named like a child key are outside the property and never generated."),
 "C04": dict(level="model_checking", technique=GEN,
   text="All selector x target x block-placement programs in scope are enumerated by TLC with the specified binding, warning count and error class and replayed into bcl.Interpret.",
   note=TB),
}
