"""Per-property checks. Each function drives the engines of vlib for one property (DESIGN.md section 6)."""
import json, os, subprocess
import vlib
from vlib import cfg, Inconclusive, log


def gen_cfg(constants, invariants=("Emit",)):
    return cfg(constants=constants, invariants=invariants)


# ------------------------------------------------------------------------------------------------ C01
def c01(run):
    run.rule = ("GEN: TLC enumerates expression cases (types scope: every unary/binary/boolean operator over the full literal pool "
                "incl. hex/octal/exponent/escaped spellings, carried as literals, variables and fields; shape scope: all two-level "
                "operator trees; sim: seeded random deep trees) with the meaning BclSem gives them; each is run through bcl.Interpret. "
                "Non-trivial = at least two operators, or one binary operator whose operands are of different kinds; distinct by source text.")
    run.assumptions += ["values outside the exactly computable domain (|int| >= 2^30, non-dyadic or long floats, exponent-form prints) are OOD: skipped and counted, never judged",
                        "runtime-error wording is not pinned by C01: a different text on a still-failing program is DRIFT"]
    run.gen_replay("Gen_Expr", gen_cfg(dict(Scope="types", ShapeLeaves=3)), ["replay-prog"], "C01:types")
    run.gen_replay("Gen_Expr", gen_cfg(dict(Scope="shape", ShapeLeaves=3 if run.quick else 4)), ["replay-prog"], "C01:shape")
    n = 20000 if run.quick else 300000
    run.gen_replay("Gen_Expr", gen_cfg(dict(Scope="sim", ShapeLeaves=3)), ["replay-prog"], "C01:sim",
                   simulate=10 ** 9, depth=8 if run.quick else 12, workers=1, max_cases=n)
    run.exhaustive = False


# ------------------------------------------------------------------------------------------------ C02..C04
def c02(run):
    run.rule = ("GEN: all programs 'prelude; def a { <= N items }; print' over declarations with/without initialiser, embedded "
                "assignments, shadowing, field/variable name reuse and nested blocks (N=2 quick, 3 thorough), each with the meaning "
                "BclSem gives it (prints, block tree, compile/runtime error), run through bcl.Interpret. Non-trivial = block body of "
                "at least two items; distinct by source text.")
    run.gen_replay("Gen_Prog", gen_cfg(dict(Scope="scope", MaxItems=2 if run.quick else 3)), ["replay-prog"], "C02:scope")
    run.exhaustive = True


def c03(run):
    run.rule = ("GEN: all sequences of <= N toplevel items (N=2 quick, 3 thorough) over named/unnamed blocks of two types with "
                "16 body shapes (fields, re-assignment, TYPE/NAME, variables, nested blocks with colliding keys, a failing statement); "
                "compared: the []Block tree incl. Go dynamic types and the blocks returned with a runtime error. "
                "Non-trivial = at least two block definitions; distinct by source text.")
    run.assumptions += ["programs never read a child block as a value nor assign a field named like an existing child key (undefined by the property)"]
    run.gen_replay("Gen_Prog", gen_cfg(dict(Scope="blocks", MaxItems=2 if run.quick else 3)), ["replay-prog"], "C03:blocks")
    run.gen_replay("Gen_Prog", gen_cfg(dict(Scope="scope", MaxItems=2)), ["replay-prog"], "C03:scope")
    run.exhaustive = True


def c04(run):
    run.rule = ("GEN: all sequences of <= N toplevel items (N=3 quick, 4 thorough) over 4 block definitions and 18 bind forms "
                "(every selector incl. an unknown one x every target incl. an unknown one); compared: binding kind and blocks, "
                "warning count, error class. Non-trivial = at least one bind and one block; distinct by source text.")
    run.gen_replay("Gen_Prog", gen_cfg(dict(Scope="bind", MaxItems=3 if run.quick else 4)), ["replay-prog"], "C04:bind")
    run.exhaustive = True


# ------------------------------------------------------------------------------------------------ C17
def c17(run):
    run.rule = ("GEN: (all) every token string of length <= N over the 25 syntactic classes (N=3 quick, 4 thorough); (viable) every viable "
                "sentence prefix up to M tokens and every sentence with one token deleted/inserted/replaced/transposed at every position "
                "(M=4 quick, 5 thorough) plus seeded random sentences up to 40 tokens; (recover) all programs of <= K one-line statements "
                "from 6 good and 9 broken forms (K=3 quick, 4 thorough). L1 verdict Derives /\\ StaticOk vs bcl.Parse/Interpret: error iff rejected, "
                ">= 1 well-formed diagnostic on rejection, none on acceptance, no results on rejection, a diagnostic on the line of every broken later statement. "
                "Non-trivial = at least 3 tokens; distinct by source text.")
    q = run.quick
    run.gen_replay("Gen_Gram", gen_cfg(dict(Scope="all", MaxLen=3 if q else 4)), ["replay-gram"], "C17:all")
    run.gen_replay("Gen_Gram", gen_cfg(dict(Scope="viable", MaxLen=4 if q else 5)), ["replay-gram"], "C17:viable")
    run.gen_replay("Gen_Gram", gen_cfg(dict(Scope="viable", MaxLen=40)), ["replay-gram"], "C17:sim",
                   simulate=10 ** 9, depth=42, workers=1, max_cases=20000 if q else 400000)
    run.gen_replay("Gen_Gram", gen_cfg(dict(Scope="recover", MaxLen=3 if q else 4), invariants=("EmitR", "GoodOk")), ["replay-gram"], "C17:recover")
    run.exhaustive = False


# ------------------------------------------------------------------------------------------------ C05 / C15
def bind_stages(run, pid, only):
    inv = ("Emit", "Lemmas")
    if run.quick:
        run.gen_replay("Gen_Bind", gen_cfg(dict(Scope="fields", MaxFields=2, Small=True), invariants=inv), ["replay-bind", "--only", only], pid + ":fields")
    else:
        run.gen_replay("Gen_Bind", gen_cfg(dict(Scope="fields", MaxFields=2, Small=False), invariants=inv), ["replay-bind", "--only", only], pid + ":fields")
        run.gen_replay("Gen_Bind", gen_cfg(dict(Scope="fields", MaxFields=3, Small=True), invariants=inv), ["replay-bind", "--only", only], pid + ":fields3")
    run.gen_replay("Gen_Bind", gen_cfg(dict(Scope="targets", MaxFields=2, Small=True)), ["replay-bind", "--only", only], pid + ":targets")


def c05(run):
    run.rule = ("GEN: every descriptor of <= 2 fields (thorough: also <= 3 with the reduced pools) from a 23-entry field pool (all supported kinds, colliding names, tags incl. "
                "a shared tag, unexported, interface, nested structs with/without Name, unsupported kinds) x every block of <= 2 entries over 9 key "
                "spellings x 7 values (incl. extreme int/float atoms) and named/unnamed nested blocks; where BclBindRules says the block is storable "
                "the struct built by Bind and by Unmarshal of the rendered BCL text must be deeply equal to the specified target; plus struct/slice "
                "targets of declared types (type-name rule) and slice targets with previous elements. Non-trivial = two or more entries or a non-struct target.")
    bind_stages(run, "C05", "c05")
    run.exhaustive = True


def c15(run):
    run.rule = ("GEN: the C05 descriptor x block space plus every binding kind (struct, slice of 0..2 blocks, nil) x 16 target kinds (nil, non-pointer, "
                "nil pointer, pointers to int/string/map/slice of int/slice of pointers/pointer/array/interface/func/chan, declared and anonymous struct types); "
                "Bind must not panic, must return an error wherever BclBindRules says a field, the name or the target cannot take the data unchanged "
                "(missing/unexported/mismatching/nil/non-struct/colliding), and must leave a slice target untouched on error. "
                "Non-trivial = two or more entries or a non-struct target.")
    bind_stages(run, "C15", "c15")
    run.exhaustive = True


# ------------------------------------------------------------------------------------------------ C16
def c16(run):
    run.rule = ("GEN: bind cases (descriptor x block) with the specification's flag 'sens' = two or more failing entries or keys colliding on one field "
                "(the inputs whose outcome depends on map order in an order-sensitive implementation), programs of the C02/C04 families and rejected token "
                "strings with several diagnostics. Each call is repeated R times in one process (R=12 quick, 30 thorough): error text, target, dump bytes, output, "
                "diagnostics, blocks and binding must be identical, the dump must be unchanged by Execute and a second Execute must agree; then three fresh "
                "processes with GOMAXPROCS 1, 4, 16 must produce the same digest for every case. Non-trivial = sens for bind cases, the family's rule otherwise.")
    reps = 12 if run.quick else 30
    import os
    digs = []
    stages = [("Gen_Bind", gen_cfg(dict(Scope="fields", MaxFields=2, Small=True)), "C16:bind", None),
              ("Gen_Prog", gen_cfg(dict(Scope="bind", MaxItems=3)), "C16:prog-bind", None),
              ("Gen_Prog", gen_cfg(dict(Scope="blocks", MaxItems=2)), "C16:prog-blocks", None),
              ("Gen_Gram", gen_cfg(dict(Scope="recover", MaxLen=3), invariants=("EmitR",)), "C16:diagnostics", None)]
    if not run.quick:
        stages.append(("Gen_Gram", gen_cfg(dict(Scope="all", MaxLen=3)), "C16:tokens", None))
    for mod, c, stage, _ in stages:
        # one generation, kept in a file, replayed by several processes
        path = os.path.join(run.scratch, stage.replace(":", "_") + ".cases")
        import subprocess
        with open(path, "w") as f:
            p = subprocess.Popen(["cat"], stdin=subprocess.PIPE, stdout=f, text=True)
            r = run.tlc(mod, c, consumer=p, label=stage + ":gen")
            p.stdin.close()
            p.wait()
        if not r["ok"]:
            raise Inconclusive("generator failed in " + stage)
        d0 = path + ".dig0"
        run.vh(["replay-det", "--reps", str(reps), "--digests", d0], stage + ":replay", input_path=path)
        ref = open(d0).read()
        for procs in (1, 4, 16):
            d = path + ".dig%d" % procs
            exe = vlib.build_harness()
            env = dict(os.environ, GOMAXPROCS=str(procs))
            pr = subprocess.run([exe, "replay-det", "--reps", "1", "--digests", d, "--in", path, "--result", path + ".r%d" % procs], env=env,
                                stdout=subprocess.PIPE, stderr=subprocess.STDOUT, text=True)
            if pr.returncode != 0:
                raise Inconclusive("digest worker failed: " + pr.stdout[-2000:])
            if open(d).read() != ref:
                a, b = ref.splitlines(), open(d).read().splitlines()
                diff = [x for x, y in zip(a, b) if x != y][:3]
                run.violations.append(dict(why="outcome digest differs between processes (GOMAXPROCS=%d)" % procs, shape="nondeterministic:process",
                                           case=dict(stage=stage, digests=diff), observed=diff, confirmed=True, stage=stage))
        run.extra.setdefault("fresh_process_runs", 0)
        run.extra["fresh_process_runs"] += 3
    run.exhaustive = False


CHECKS = {
    "C01": (c01, "model_checking"),
    "C02": (c02, "model_checking"),
    "C03": (c03, "model_checking"),
    "C04": (c04, "model_checking"),
    "C05": (c05, "model_checking"),
    "C15": (c15, "model_checking"),
    "C16": (c16, "model_checking"),
    "C17": (c17, "model_checking"),
}


def replay(pid, path):
    """Re-run one recorded violation and print both sides."""
    v = json.load(open(path))
    stage = v.get("stage", "")
    fam = (v.get("case") or {}).get("fam", "prog")
    exe = vlib.build_harness()
    tmp = path + ".case"
    with open(tmp, "w") as f:
        f.write(json.dumps(v["case"]) + "\n")
    p = subprocess.run([exe, "replay-" + fam, "--in", tmp], stdout=subprocess.PIPE, text=True)
    os.unlink(tmp)
    s = json.loads(p.stdout)
    print("specification (case):", json.dumps(v["case"])[:2000])
    print("recorded observation:", json.dumps(v.get("observed"))[:2000])
    if s.get("mismatch_count"):
        print("re-run: STILL FAILS:", s["mismatches"][0]["why"])
        print("observed now:", json.dumps(s["mismatches"][0]["observed"])[:2000])
        print("VIOLATION property=%s replay=%s" % (pid, path))
        return 1
    print("re-run: passes now")
    return 0
