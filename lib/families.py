"""Per-property checks. Each function drives the engines of vlib for one property (DESIGN.md section 6)."""
import json, os, subprocess
import vlib
from vlib import cfg, Inconclusive, log


def gen_cfg(constants, invariants=("Emit",)):
    return cfg(constants=constants, invariants=invariants)


# ------------------------------------------------------------------------------------------------ C01
def c01(run):
    run.rule = ("GEN: TLC enumerates expression cases (types scope: every unary/binary/boolean operator over the full literal pool "
                "incl. hex/octal/exponent/escaped spellings, carried as literals, variables and fields; prec scope: every ordered pair of operators in both "
                "groupings and with each unary form inside/outside, over 6 leaf triples; big scope: comparisons, sums and differences of 17 integers around 2^31, 2^32, 2^53, 10^18, 2^62 and 2^63-1 as literals, hexadecimal literals, variables and negated, computed on digit sequences; shape scope (thorough): all two-level operator trees over all 12 binary operators; sim: seeded random deep trees) with the meaning BclSem gives them; each is run through bcl.Interpret. "
                "Non-trivial = at least two operators, or one binary operator whose operands are of different kinds; distinct by source text.")
    run.assumptions += ["values outside the exactly computable domain (|int| >= 2^30, non-dyadic or long floats, exponent-form prints) are OOD: skipped and counted, never judged",
                        "runtime-error wording is not pinned by C01: a different text on a still-failing program is DRIFT"]
    run.gen_replay("Gen_Expr", gen_cfg(dict(Scope="types", ShapeLeaves=3)), ["replay-prog"], "C01:types")
    run.gen_replay("Gen_Expr", gen_cfg(dict(Scope="prec", ShapeLeaves=3)), ["replay-prog"], "C01:prec")
    run.gen_replay("Gen_Expr", gen_cfg(dict(Scope="logic", ShapeLeaves=3)), ["replay-prog"], "C01:logic")
    if not run.quick:
        run.gen_replay("Gen_Expr", gen_cfg(dict(Scope="shape", ShapeLeaves=3)), ["replay-prog"], "C01:shape")
    n = 20000 if run.quick else 300000
    run.gen_replay("Gen_Expr", gen_cfg(dict(Scope="sim", ShapeLeaves=3)), ["replay-prog"], "C01:sim",
                   simulate=10 ** 9, depth=8 if run.quick else 12, workers=1, max_cases=n)
    # 64-bit integers beyond TLC's own: numerals as digit sequences with their own comparison / addition / subtraction
    run.gen_replay("Gen_Big", cfg(invariants=("Emit", "Lemma")), ["replay-prog"], "C01:big")
    # short-circuit jumps whose distance crosses 255/256 and 511/512 (taken and not taken), outcome in closed form
    run.gen_replay("Gen_Total", cfg(constants=dict(Scope="jumps", MaxLen=1), invariants=("Emit",)), ["replay-total"], "C01:jumps")
    tv_vm(run, "C01:vm", 600 if run.quick else 6000)
    run.exhaustive = False


VMC = dict(StackSize=1024, BlockStackSize=16)


def chk_comp(run, stage, n, violations, case_sources=(), stride=1, max_cases=1500, seed_off=0):
    """Translation validation of the real compiler against BclLex + BclCompiler (Chk_Comp). `violations` = the verdicts that
    contradict the property being checked; the other disagreements are finer than any property and reported as DRIFT."""
    import os, subprocess, re
    args = ["drive-comp", "--n", str(n), "--seed", str(run.seed * 10 + seed_off), "--max", str(max_cases), "--stride", str(stride)]
    inp = None
    if case_sources:
        inp = os.path.join(run.scratch, stage.replace(":", "_") + ".cases")
        with open(inp, "w") as f:
            for mod, c, kw in case_sources:
                p = subprocess.Popen(["cat"], stdin=subprocess.PIPE, stdout=f, text=True)
                run.tlc(mod, c, consumer=p, label=stage + ":gen:" + mod, **kw)
                p.stdin.close()
                p.wait()
    batch = os.path.join(run.scratch, stage.replace(":", "_") + ".ndjson")
    s = run.vh(args + ["--out", batch], stage + ":drive", input_path=inp)
    run.traces -= s.get("judged", 0)
    r = run.tlc("Chk_Comp", cfg(constants=dict(LocalsMax=1024, JumpMax=65535), invariants=("Tally",)), workers=1,
                files={"progs.ndjson": "@" + batch}, label=stage + ":tlc", timeout=1800)
    if not r["ok"]:
        raise Inconclusive("Chk_Comp failed: %s" % r.get("violated"))
    lines = open(batch).read().splitlines()
    tally = {}
    for m in re.finditer(r'<<"VERDICT", (\d+), "([a-z-]+)">>', r["text"]):
        k, v = int(m.group(1)), m.group(2)
        tally[v] = tally.get(v, 0) + 1
        if v in ("ood", "ok-accepted", "ok-rejected"):
            continue
        rec = json.loads(lines[k - 1])
        if v in violations:
            if sum(1 for x in run.violations if x.get("shape") == "comp:" + v) < 5:
                run.violations.append(dict(why="the real compiler and the specification's lexer + compiler machine disagree: " + v, shape="comp:" + v,
                                           case=dict(fam="comp", src=rec.get("text")), observed=dict(ok=rec.get("ok"), diags=rec.get("diags")), confirmed=True, stage=stage))
        else:
            run.drift.append(dict(stage=stage, kind=v, count=1))
    run.traces += tally.get("ok-accepted", 0) + tally.get("ok-rejected", 0)
    run.extra.setdefault("chk_comp", {})[stage] = tally
    if len(tally) == 0:
        raise Inconclusive("Chk_Comp judged nothing")
    return tally


def tv_vm(run, stage, n, seed_off=0):
    """TV engine for the VM: random type-directed programs run by the real VM with the step hook on; Trace_VM judges every step."""
    import os, subprocess
    tr = os.path.join(run.scratch, stage.replace(":", "_") + ".ndjson")
    s = run.vh(["drive-vm", "--n", str(n), "--seed", str(run.seed * 1000 + seed_off), "--out", tr], stage + ":drive")
    run.traces -= s.get("judged", 0)   # counted when validated, not when driven
    exe = vlib.build_harness()

    def redrive(srcp, outp):
        subprocess.run([exe, "drive-vm", "--src", srcp, "--out", outp, "--result", outp + ".json"], stdout=subprocess.DEVNULL)
    ok = run.tv("Trace_VM", VMC, tr, stage + ":tlc", s.get("judged", 0), redrive=redrive)
    run.extra.setdefault("vm_steps_validated", 0)
    if ok:
        run.extra["vm_steps_validated"] += (s.get("extra") or {}).get("events", 0)
    return ok


def mc_chain(run, scope, items, invs=("Refines", "CodeWellFormed")):
    """MC: L1 meaning == L2 chain (L1 lexer -> compiler machine -> VM machine) on every program of a Gen_Prog family."""
    return run.mc("MC_Chain", cfg(constants=dict(Scope=scope, MaxItems=items), invariants=invs), label="MC_Chain(%s,%d)" % (scope, items), timeout=2400)


# ------------------------------------------------------------------------------------------------ C02..C04
def c02(run):
    run.rule = ("MC: MC_Chain — the L1 meaning equals the L2 chain (L1 lexer -> compiler machine -> VM machine) on every program of the family with a block body of <= 1 item "
                "(2 thorough). GEN: all programs 'prelude; def a { <= N items }; print' over declarations with/without initialiser, embedded "
                "assignments, shadowing, field/variable name reuse and nested blocks (N=2 quick, 3 thorough), each with the meaning "
                "BclSem gives it (prints, block tree, compile/runtime error), run through bcl.Interpret. Non-trivial = block body of "
                "at least two items; distinct by source text.")
    mc_chain(run, "scope", 1 if run.quick else 2)
    mc_chain(run, "fields3", 1)
    # many variables: slot numbers and pop counts across 240/241 and 255/256, every operand value 0..40 (closed-form outcome)
    run.gen_replay("Gen_Total", cfg(constants=dict(Scope="varscale", MaxLen=1), invariants=("Emit",)), ["replay-total"], "C02:varscale")
    run.gen_replay("Gen_Prog", gen_cfg(dict(Scope="scope", MaxItems=2)), ["replay-prog"], "C02:scope")
    # the same field name at three nesting levels, read from inside and after inner blocks have ended
    run.gen_replay("Gen_Prog", gen_cfg(dict(Scope="fields3", MaxItems=1)), ["replay-prog"], "C02:fields3")
    # blocks nested to every supported depth (and one beyond): the limit is on the blocks open at one time
    run.gen_replay("Gen_Total", cfg(constants=dict(Scope="blockscale", MaxLen=1), invariants=("Emit",)), ["replay-total"], "C02:depth")
    tv_vm(run, "C02:vm", 500 if run.quick else 5000, seed_off=2)
    run.exhaustive = True


def c03(run):
    run.rule = ("GEN: all sequences of <= N toplevel items (N=2 quick, 3 thorough) over named/unnamed blocks of two types with "
                "24 body shapes and two bind statements (incl. fields named TYPE/NAME, empty children followed by non-empty siblings and a field preceding an unnamed child of the same key) (fields, re-assignment, TYPE/NAME, variables, nested blocks with colliding keys, a failing statement); "
                "compared: the []Block tree incl. Go dynamic types and the blocks returned with a runtime error. "
                "Non-trivial = at least two block definitions; distinct by source text.")
    run.assumptions += ["programs never read a child block as a value nor assign a field named like an existing child key (undefined by the property)"]
    # blocks nested to every supported depth with more blocks opened afterwards (closed-form output)
    run.gen_replay("Gen_Total", cfg(constants=dict(Scope="blockscale", MaxLen=1), invariants=("Emit",)), ["replay-total"], "C03:depth")
    mc_chain(run, "blocks", 2)
    run.gen_replay("Gen_Prog", gen_cfg(dict(Scope="blocks", MaxItems=2 if run.quick else 3)), ["replay-prog"], "C03:blocks")
    # blocks of two types around bind statements: a bind must leave the result list as it is
    run.gen_replay("Gen_Prog", gen_cfg(dict(Scope="bindmany", MaxItems=5)), ["replay-prog"], "C03:with-binds")
    if not run.quick:
        run.gen_replay("Gen_Prog", gen_cfg(dict(Scope="scope", MaxItems=2)), ["replay-prog"], "C03:scope")
    tv_vm(run, "C03:vm", 500 if run.quick else 5000, seed_off=3)
    run.exhaustive = True


def c04(run):
    run.rule = ("GEN: all sequences of <= N toplevel items (N=3 quick, 4 thorough) over 4 block definitions and 18 bind forms "
                "(every selector incl. an unknown one x every target incl. an unknown one); compared: binding kind and blocks, "
                "warning count, error class; every token of the vocabulary as selector and as target (accept/reject by the grammar). Non-trivial = at least one bind and one block; distinct by source text.")
    mc_chain(run, "bind", 3)
    mc_chain(run, "bindmany", 5)
    run.gen_replay("Gen_Prog", gen_cfg(dict(Scope="bind", MaxItems=3 if run.quick else 4)), ["replay-prog"], "C04:bind")
    run.gen_replay("Gen_Prog", gen_cfg(dict(Scope="bindmany", MaxItems=5 if run.quick else 6)), ["replay-prog"], "C04:bindmany")   # up to 3 binds
    # the selector and the target as tokens: every token of the full vocabulary in either place (other spellings of the value one
    # -- 01, 0x1 -- are not the selector '1'); accept/reject decided by the grammar
    run.gen_replay("Gen_Gram", gen_cfg(dict(Scope="bindsel", MaxLen=1)), ["replay-gram"], "C04:bindsel")
    # the bound type's name as a late constant (index across 240/241, 255/256, two- and three-byte operands)
    run.gen_replay("Gen_Total", cfg(constants=dict(Scope="bindscale", MaxLen=1), invariants=("Emit",)), ["replay-total"], "C04:late")
    tv_vm(run, "C04:vm", 500 if run.quick else 5000, seed_off=4)
    run.exhaustive = True


# ------------------------------------------------------------------------------------------------ C17
def c17(run):
    run.rule = ("GEN: (all) every token string of length <= N over the 25 syntactic classes (N=3 quick, 4 thorough); (viable) every viable "
                "sentence prefix up to M tokens and every sentence with one token deleted/inserted/replaced/transposed at every position "
                "(M=4 quick, 5 thorough) plus seeded random sentences up to 40 tokens; (recover) all programs of <= K one-line statements "
                "from 6 good and 9 broken forms (K=3 quick, 4 thorough). L1 verdict Derives /\\ StaticOk vs bcl.Parse/Interpret: error iff rejected, "
                ">= 1 well-formed diagnostic on rejection, none on acceptance, no results on rejection, a diagnostic on the line of every broken later statement. "
                "MC (MC_Gram): on all these token strings the L1 recogniser and the L2 compiler machine agree about acceptance. Non-trivial = at least 3 tokens; distinct by source text.")
    q = run.quick
    # design level: on arbitrary token strings the L1 recogniser and the L2 compiler machine (with its panic-mode recovery) agree about
    # acceptance, and the machine comes to an end on each
    for sc, ml in (("all", 3), ("viable", 4 if q else 5), ("assign", 1), ("bindsel", 1), ("nest", 1)):
        run.mc("MC_Gram", cfg(constants=dict(Scope=sc, MaxLen=ml), invariants=("SameVerdict",)), label="MC_Gram(%s)" % sc)
    run.gen_replay("Gen_Gram", gen_cfg(dict(Scope="all", MaxLen=3 if q else 4)), ["replay-gram"], "C17:all")
    run.gen_replay("Gen_Gram", gen_cfg(dict(Scope="viable", MaxLen=4 if q else 5)), ["replay-gram"], "C17:viable")
    run.gen_replay("Gen_Gram", gen_cfg(dict(Scope="viable", MaxLen=40)), ["replay-gram"], "C17:sim",
                   simulate=10 ** 9, depth=42, workers=1, max_cases=20000 if q else 400000)
    run.gen_replay("Gen_Gram", gen_cfg(dict(Scope="recover", MaxLen=3 if q else 4), invariants=("EmitR", "GoodOk")), ["replay-gram"], "C17:recover")
    run.gen_replay("Gen_Gram", gen_cfg(dict(Scope="assign", MaxLen=1), invariants=("Emit", "AsgOk")), ["replay-gram"], "C17:assign")
    run.gen_replay("Gen_Gram", gen_cfg(dict(Scope="bindsel", MaxLen=1)), ["replay-gram"], "C17:bindsel")
    run.gen_replay("Gen_Gram", gen_cfg(dict(Scope="nest", MaxLen=1)), ["replay-gram"], "C17:nest")
    run.gen_replay("Gen_Gram", gen_cfg(dict(Scope="comments", MaxLen=2 if q else 3)), ["replay-gram"], "C17:comments")
    # n broken statements, one per line (n up to 1000): rejected, and every one of them has a diagnostic of its own
    run.gen_replay("Gen_Total", cfg(constants=dict(Scope="errscale", MaxLen=1), invariants=("Emit",)), ["replay-total"], "C17:errscale")
    chk_comp(run, "C17:comp", 1200 if q else 12000, ("accept-mismatch",),
             case_sources=[("Gen_Gram", gen_cfg(dict(Scope="assign", MaxLen=1)), {})], max_cases=4000)
    run.exhaustive = False


# ------------------------------------------------------------------------------------------------ C05 / C15
def bind_stages(run, pid, only):
    inv = ("Emit", "Lemmas")
    if run.quick:
        run.gen_replay("Gen_Bind", gen_cfg(dict(Scope="fields", MaxFields=2, Small=True), invariants=inv), ["replay-bind", "--only", only], pid + ":fields")
    else:
        # thorough: the quick scope in full, then the full key / value pools and descriptors of three fields as seeded samples (the
        # exhaustive products are in the tens of millions and do not finish)
        run.gen_replay("Gen_Bind", gen_cfg(dict(Scope="fields", MaxFields=2, Small=True), invariants=inv), ["replay-bind", "--only", only], pid + ":fields")
        run.gen_replay("Gen_Bind", gen_cfg(dict(Scope="fields", MaxFields=2, Small=False), invariants=inv), ["replay-bind", "--only", only], pid + ":fields-full",
                       simulate=10 ** 9, depth=8, workers=1, max_cases=1500000, timeout=2400)
        run.gen_replay("Gen_Bind", gen_cfg(dict(Scope="fields", MaxFields=3, Small=True), invariants=inv), ["replay-bind", "--only", only], pid + ":fields3",
                       simulate=10 ** 9, depth=8, workers=1, max_cases=1500000, timeout=2400)
    run.gen_replay("Gen_Bind", gen_cfg(dict(Scope="targets", MaxFields=2, Small=True)), ["replay-bind", "--only", only], pid + ":targets")
    if only == "c05":
        # many blocks: 1..300 named blocks with int/string/bool/float fields bound to a slice (all) or a struct (last), value in closed form
        run.gen_replay("Gen_Bind", gen_cfg(dict(Scope="big", MaxFields=2, Small=True)), ["replay-bind", "--only", only], pid + ":big")


def c05(run):
    run.rule = ("GEN: every descriptor of <= 2 fields (thorough: also <= 3 with the reduced pools) from a 23-entry field pool (all supported kinds, colliding names, tags incl. "
                "a shared tag, unexported, interface, nested structs with/without Name, unsupported kinds) x every block of <= 2 entries over 9 key "
                "spellings x 7 values (incl. extreme int/float atoms) and named/unnamed nested blocks; where BclBindRules says the block is storable "
                "the struct built by Bind and by Unmarshal of the rendered BCL text must be deeply equal to the specified target; plus struct/slice "
                "targets of declared types (type-name rule) and slice targets with previous elements. Non-trivial = two or more entries or a non-struct target.")
    bind_stages(run, "C05", "c05")
    run.exhaustive = True


def c15(run):
    run.rule = ("GEN: the C05 descriptor x block space plus every binding kind (struct, slice of 0..2 blocks, nil) x 16 target kinds (nil, non-pointer, "
                "nil pointer, pointers to int/string/map/slice of int/slice of pointers/pointer/array/interface/func/chan, declared and anonymous struct types); "
                "Bind must not panic, must return an error wherever BclBindRules says a field, the name or the target cannot take the data unchanged "
                "(missing/unexported/mismatching/nil/non-struct/colliding), and must leave a slice target untouched on error. "
                "Non-trivial = two or more entries or a non-struct target.")
    bind_stages(run, "C15", "c15")
    run.exhaustive = True


# ------------------------------------------------------------------------------------------------ C06
def c06(run):
    run.rule = ("GEN: (bytes) every byte string of length <= L over a 22-byte alphabet reaching every lexer state (L=3 quick, 4 thorough); (tokens) every token string of length <= 3 "
                "over 25 classes and every sentence of <= 4 tokens with every single-token mutation; (literals) 23 malformed / out-of-range literal spellings x 10 syntactic positions; "
                "(damage) 4 base programs with every byte replaced by each of 16 bytes, deleted or doubled; (scale) 11 shape families at limit-1, limit, limit+1 of the operand stack, "
                "block nesting, variable count and jump distance, and out-of-domain operands (negative / 2^20 repeat counts, every division by zero, integer extremes, Inf/NaN). "
                "(programs) the bind and blocks families of C03/C04. Each input goes through Parse, Interpret, Unmarshal, ParseFile, InterpretFile, UnmarshalFile (4096-byte pages) and InterpretFile in 8-byte reads each followed by a zero-byte read, in a child process with a 10 s watchdog: a panic (recovered or process death) "
                "or a hang is a violation. MC (MC_Total): on the byte-given inputs the composed L2 chain of the specification itself comes to an end (no stuck machine, no run out of fuel). Non-trivial = >= 2 bytes / every scaled case; distinct by input.")
    run.assumptions += ["bounded time is a 10 s watchdog per input, not a proof"]
    q = run.quick
    # design level: the composed L2 chain (L1 lexer -> compiler machine -> VM machine) comes to an end on every such input
    for sc, ml in (("bytes", 3 if q else 4), ("literals", 1), ("damage", 1)):
        run.mc("MC_Total", cfg(constants=dict(Scope=sc, MaxLen=ml), invariants=("Ends",)), label="MC_Total(%s)" % sc)
    run.gen_replay("Gen_Total", cfg(constants=dict(Scope="bytes", MaxLen=3 if q else 4), invariants=("Emit",)), ["replay-total"], "C06:bytes")
    run.gen_replay("Gen_Total", cfg(constants=dict(Scope="literals", MaxLen=1), invariants=("Emit",)), ["replay-total"], "C06:literals")
    run.gen_replay("Gen_Total", cfg(constants=dict(Scope="damage", MaxLen=1), invariants=("Emit",)), ["replay-total"], "C06:damage")
    run.gen_replay("Gen_Total", cfg(constants=dict(Scope="scale", MaxLen=1), invariants=("Emit",)), ["replay-total"], "C06:scale")
    run.gen_replay("Gen_Gram", gen_cfg(dict(Scope="all", MaxLen=3)), ["replay-total"], "C06:tokens")
    run.gen_replay("Gen_Gram", gen_cfg(dict(Scope="viable", MaxLen=3 if q else 4)), ["replay-total"], "C06:mutations")
    run.gen_replay("Gen_Prog", gen_cfg(dict(Scope="bind", MaxItems=3)), ["replay-total"], "C06:programs-bind")
    run.gen_replay("Gen_Prog", gen_cfg(dict(Scope="blocks", MaxItems=2)), ["replay-total"], "C06:programs-blocks")
    run.exhaustive = True


def tv_lexer(run, stage, n, seed_off=0):
    """TV of the streaming lexer: recorded lexer events of real ParseFile runs vs the L2 machine BclLexer on the same chunks."""
    import os, re
    batch = os.path.join(run.scratch, stage.replace(":", "_") + ".ndjson")
    s = run.vh(["drive-lex", "--n", str(n), "--seed", str(run.seed * 10 + seed_off), "--out", batch], stage + ":drive")
    run.traces -= s.get("judged", 0)
    r = run.tlc("Trace_Lexer", cfg(constants=dict(Faithful=False), invariants=("Tally",)), workers=1,
                files={"lexruns.ndjson": "@" + batch}, label=stage + ":tlc", timeout=1800)
    if not r["ok"]:
        raise Inconclusive("Trace_Lexer failed: %s" % r.get("violated"))
    lines = open(batch).read().splitlines()
    tally = {}
    for m in re.finditer(r'<<"VERDICT", (\d+), "([a-z-]+)">>', r["text"]):
        k, v = int(m.group(1)), m.group(2)
        tally[v] = tally.get(v, 0) + 1
        if v != "ok" and sum(1 for x in run.violations if x.get("shape") == "lexer:" + v) < 4:
            rec = json.loads(lines[k - 1])
            run.violations.append(dict(why="the recorded run of the streaming lexer is not a run of the lexer machine on the same chunks: " + v, shape="lexer:" + v,
                                       case=dict(fam="lexrun", src=rec.get("src"), chunks=rec.get("chunks")),
                                       observed=dict(toks=rec.get("toks"), recvs=rec.get("recvs"), lfs=rec.get("lfs")), confirmed=True, stage=stage))
    if not tally:
        raise Inconclusive("Trace_Lexer judged nothing")
    run.traces += tally.get("ok", 0)
    run.extra.setdefault("lexer_runs", {})[stage] = tally
    return tally


# ------------------------------------------------------------------------------------------------ C07
ALPHA18 = "{97, 49, 48, 120, 46, 101, 34, 92, 61, 33, 45, 62, 32, 10, 35, 194, 160, 36}"


def mc_chunks(run, maxlen):
    c = cfg(constants=dict(Faithful=False, MaxLen=maxlen, AllowEmpty=True, Alphabet=ALPHA18), invariants=("Agree",))
    return run.mc("MC_Chunks", c, label="MC_Chunks(len<=%d)" % maxlen)


def c07(run):
    run.rule = ("MC: the streaming lexer machine BclLexer (window, refill arithmetic, line table) equals the whole-input lexer BclLex on every byte string "
                "of length <= L over an 18-byte alphabet under every partition, with and without an interposed empty chunk (L=3 quick, 4 thorough). "
                "GEN: every concatenation of N lexemes from a 33-lexeme pool of boundary-relevant spellings (N=2; thorough adds a seeded sample of 300 000 triples) x every set of <= 2 cut points "
                "x a zero-byte read before chunk 0/1/2 x last chunk with/without EOF, and every lexeme pair behind a comment line placing the real 4096-byte page "
                "boundary at every offset; ParseFile through a scripted FileInput must equal Parse on the whole input in error, diagnostics and dump bytes. "
                "TV: the lexer goroutine's recorded events (chunks received, offsets given to the line table, tokens emitted) of ParseFile on random sources in random small reads "
                "are judged by Trace_Lexer against the machine run on the same chunks. Non-trivial = at least one cut (or a page boundary) ; distinct by case.")
    mc_chunks(run, 3 if run.quick else 4)
    run.gen_replay("Gen_Chunks", cfg(constants=dict(Faithful=False, Scope="cuts", NLex=2), invariants=("EmitCase", "Agree")),
                   ["replay-chunks"], "C07:cuts")
    if not run.quick:
        # triples of lexemes are too many to enumerate with all cut sets (~6e7): a seeded sample of them
        run.gen_replay("Gen_Chunks", cfg(constants=dict(Faithful=False, Scope="cuts", NLex=3), invariants=("EmitCase", "Agree")),
                       ["replay-chunks"], "C07:cuts3", simulate=10 ** 9, depth=6, workers=1, max_cases=300000, timeout=2400)
    run.gen_replay("Gen_Chunks", cfg(constants=dict(Faithful=False, Scope="page", NLex=2), invariants=("EmitCase",)), ["replay-chunks"], "C07:page")
    tv_lexer(run, "C07:lexer", 600 if run.quick else 6000)
    run.exhaustive = True


# ------------------------------------------------------------------------------------------------ C10 / C14 (real dumps into TLC)
def real_dumps(run, stage, sources, max_n, stride=1, maxlen=1500):
    """sources: list of (module, cfg, simulate-kwargs). Real-compiler dumps of the generated programs -> dumps.ndjson."""
    import os, subprocess
    cases = os.path.join(run.scratch, stage.replace(":", "_") + ".cases")
    with open(cases, "w") as f:
        for mod, c, kw in sources:
            p = subprocess.Popen(["cat"], stdin=subprocess.PIPE, stdout=f, text=True)
            r = run.tlc(mod, c, consumer=p, label=stage + ":gen:" + mod, **kw)
            p.stdin.close()
            p.wait()
            if not r["ok"]:
                raise Inconclusive("generator failed in " + stage)
    dumps = os.path.join(run.scratch, stage.replace(":", "_") + ".ndjson")
    s = run.vh(["mkdumps", "--out", dumps, "--max", str(max_n), "--stride", str(stride), "--maxlen", str(maxlen), "--seed", str(run.seed)], stage + ":dumps", input_path=cases)
    run.traces -= s.get("judged", 0)   # counted when TLC has validated them
    n = (s.get("extra") or {}).get("dumps", 0)
    if n == 0:
        raise Inconclusive("no dumps produced in " + stage)
    return dumps, n


def tlc_on_dumps(run, stage, dumps, n, invariants, view=True):
    c = cfg(invariants=invariants, view="View" if view else None)
    r = run.tlc("Trace_Dumps", c, files={"dumps.ndjson": "@" + dumps}, label=stage + ":tlc", timeout=1500)
    if r["violated"]:
        # identify the program: the counterexample's first state prints k
        import re
        m = re.search(r"/\\ k = (\d+)", r["text"])
        kk = int(m.group(1)) if m else 0
        src = None
        for line in open(dumps + ".src"):
            j = json.loads(line)
            if j["k"] == kk:
                src = j["src"]
        tail = "\n".join([l for l in r["text"].splitlines() if l.startswith("/\\") or "violated" in l][:40])
        run.violations.append(dict(why="invariant %s of Trace_Dumps violated by the real dump of program %d" % (r["violated"], kk),
                                   shape="tlc:" + r["violated"], case=dict(fam="dump", k=kk, src=src), observed=tail, confirmed=True, stage=stage))
    else:
        run.traces += n
    return r


def dump_sources(run):
    q = run.quick
    return [("Gen_Total", cfg(constants=dict(Scope="varscale", MaxLen=1), invariants=("Emit",)), {}),
            ("Gen_Expr", gen_cfg(dict(Scope="types", ShapeLeaves=3)), {}),
            ("Gen_Prog", gen_cfg(dict(Scope="bind", MaxItems=3)), {}),
            ("Gen_Prog", gen_cfg(dict(Scope="blocks", MaxItems=2)), {}),
            ("Gen_Expr", gen_cfg(dict(Scope="sim", ShapeLeaves=3)), dict(simulate=10 ** 9, depth=14, workers=1, max_cases=30000 if q else 200000)),
            # scoping programs (declarations with initialisers, shadowing, nested blocks ending and slots being used again): a seeded sample
            ("Gen_Prog", gen_cfg(dict(Scope="scope", MaxItems=3)), dict(simulate=10 ** 9, depth=8, workers=1, max_cases=12000 if q else 80000))]


def c10(run):
    run.rule = ("TV of real artefacts: the real compiler's dumps of TLC-generated programs (every operator x operand kind, all bind/blocks programs in scope, seeded deep "
                "expression trees with and/or chains, a seeded sample of the scoping programs of C02 with <= 3 items per block) are decoded by BclFormat and explored by the abstract machine of BclISA along both successors of every JFALSE; "
                "invariants: exact tiling, RET last, operand kinds and ranges, live slots, jumps on boundaries, balanced blocks, depth >= what each instruction needs, "
                "0 at RET, and (Unique) the same depth on every path into an offset. Non-trivial = every accepted program (distinct by source).")
    # design level: the compiler machine's code is well-formed along every path for all programs of two families
    mc_chain(run, "bind", 3, invs=("CodeWellFormed",))
    mc_chain(run, "blocks", 2, invs=("CodeWellFormed",))
    # programs whose slot numbers, POPN counts and constant indices cross 240/241 and 255/256 (all of them, no stride)
    d0, n0 = real_dumps(run, "C10:scale", dump_sources(run)[:1], 1000, stride=1, maxlen=20000)
    tlc_on_dumps(run, "C10:scale-paths", d0, n0, ("WellFormed", "Unique"))
    dumps, n = real_dumps(run, "C10:real", dump_sources(run)[1:5], 3000 if run.quick else 24000, stride=25 if run.quick else 9)
    tlc_on_dumps(run, "C10:paths", dumps, n, ("WellFormed", "Unique"))
    d2, n2 = real_dumps(run, "C10:scoping", dump_sources(run)[5:], 1500 if run.quick else 12000, stride=5 if run.quick else 3)
    tlc_on_dumps(run, "C10:scoping-paths", d2, n2, ("WellFormed", "Unique"))
    n += n2
    # and / or / not two and three deep (short-circuit jumps landing on jumps, chains of three operands): all of them
    d3, n3 = real_dumps(run, "C10:logic", [("Gen_Expr", gen_cfg(dict(Scope="logic", ShapeLeaves=3)), {}), ("Gen_Expr", gen_cfg(dict(Scope="prec", ShapeLeaves=3)), {})], 4000, stride=1)
    tlc_on_dumps(run, "C10:logic-paths", d3, n3, ("WellFormed", "Unique"))
    n += n3
    # the jump-distance limit: beyond 65535 bytes the compiler must reject (a wrapped operand would break the invariants above);
    # dumps of that size are not fed to TLC, the closed-form expectation of Gen_Total is replayed instead
    run.gen_replay("Gen_Total", cfg(constants=dict(Scope="scale", MaxLen=1), invariants=("Emit",)), ["replay-total"], "C10:limits")
    # constant indices across the operand classes (240/241, 2287/2288, 65535/65536): an identifier met late and used again
    run.gen_replay("Gen_Total", cfg(constants=dict(Scope="constscale", MaxLen=1), invariants=("Emit",)), ["replay-total"], "C10:consts")
    run.extra["programs"] = n
    run.exhaustive = False


# ------------------------------------------------------------------------------------------------ C09 / C13 / C14
def mc_format(run):
    c = cfg(constants=dict(Scope="mc", MaxConsts=1 if run.quick else 2), invariants=("FormatOk", "VarintOk"))
    r = run.mc("Gen_Format", c, label="MC_Format")
    if not run.quick:
        # symbolic: every x < 2^32 round-trips through the varint encoding (Apalache; the TLC check above covers class boundaries only)
        run.apalache("Apa_Varint", "RoundTrip")
    return r


def mc_load(run):
    """MC: the loader machine BclLoad (L2) refines BclFormat (L1) under every delivery of the bytes and at every cut, and every load ends."""
    c = cfg(constants=dict(ReadSizes="{1, 2, 3, 10}" if run.quick else "{1, 2, 3, 5, 9, 10, 64}"),
            invariants=("Window", "Verdict", "Reason", "Events", "RunAgrees"), properties=("Terminates",))
    return run.mc("MC_Load", c, label="MC_Load")


def tv_load(run, stage, n, pid, seed_off=0):
    """TV of the real loader: recorded LoadProg runs (reads of the source, section events of the hook in prog.go, returned label,
    re-dump) folded through the L2 machine BclLoad (Trace_Load). What contradicts the property: for C09/C14 a whole dump that is
    rejected, panics, or loads to other parts than the machine's; for C13 a proper prefix that is accepted, or panics. The finer
    disagreements (laziness of reads, order of section events, error label) are DRIFT."""
    import os, re
    batch = os.path.join(run.scratch, stage.replace(":", "_") + ".ndjson")
    s = run.vh(["drive-load", "--n", str(n), "--seed", str(run.seed * 10 + seed_off), "--corpus", os.path.join(vlib.VERIF, "corpus"), "--out", batch], stage + ":drive")
    run.traces -= s.get("judged", 0)
    r = run.tlc("Trace_Load", cfg(invariants=("Tally",)), files={"loadruns.ndjson": "@" + batch}, label=stage + ":tlc", timeout=1800)
    if not r["ok"]:
        raise Inconclusive("Trace_Load failed: %s" % r.get("violated"))
    lines = open(batch).read().splitlines()
    tally = {}
    for m in re.finditer(r'<<"VERDICT", (\d+), "([a-z0-9-]+)">>', r["text"]):
        k, v = int(m.group(1)), m.group(2)
        rec = json.loads(lines[k - 1])
        whole = rec["cut"] == rec["full"]
        if rec["ret"] == "panic" and v != "ood":
            v = "panic"
        tally[v] = tally.get(v, 0) + 1
        if v in ("ok", "ood"):
            continue
        mine = (whole and pid in ("C09", "C14")) or (not whole and pid == "C13")
        if v in ("verdict-mismatch", "parts-mismatch", "l1-mismatch", "panic") and mine:
            if sum(1 for x in run.violations if x.get("shape") == "load:" + v) < 4:
                run.violations.append(dict(why="the recorded run of the real loader is not a run of the loader machine on the same bytes: %s (%s)" % (v, "whole dump" if whole else "proper prefix"),
                                           shape="load:" + v, case=dict(fam="loadrun", src=rec.get("src"), cut=rec["cut"], full=rec["full"]),
                                           observed=dict(ret=rec["ret"], events=rec["evs"][:40]), confirmed=True, stage=stage))
        else:
            run.drift.append(dict(stage=stage, kind="load:" + v, count=1))
    if not tally:
        raise Inconclusive("Trace_Load judged nothing")
    run.traces += tally.get("ok", 0)
    run.extra.setdefault("load_runs", {})[stage] = tally
    return tally


def prog_sources_small(run):
    return [("Gen_Prog", gen_cfg(dict(Scope="bind", MaxItems=3)), {}),
            ("Gen_Prog", gen_cfg(dict(Scope="blocks", MaxItems=2)), {}),
            ("Gen_Expr", gen_cfg(dict(Scope="types", ShapeLeaves=3)), {})]


def c09(run):
    run.rule = ("MC: over program records (names, code, every constant kind incl. opaque ints and floats, positions and line tables across the varint classes) the "
                "format is decodable, Loadable and re-encodes identically. GEN: scaling-law programs (string constant / identifier / program name / source offset / comment "
                "of n bytes for 26 sizes around 240/241, 2287/2288, 4096, 8192, 67823/67824) x 9 delivery patterns of the dump (all at once, 1 byte per read, cyclic sizes), "
                "plus every program of the C01/C03/C04 families: real Dump then LoadProg must give the same disassembly, output, blocks, binding, warnings, runtime error "
                "with position, and a byte-identical second dump; every dump is also taken by the Load method of a Prog that holds another program. "
                "MC (MC_Load): the loader machine BclLoad (Prog.Load as a step machine over a lazily read buffered source) accepts exactly the L1-Loadable files with the L1 decoder's parts "
                "under every delivery (any read sizes, the last bytes together with the end) and at every cut, and every load ends. TV (Trace_Load): recorded LoadProg runs on real dumps "
                "and on the recorded corpus (every read with what it delivered incl. zero-byte reads, every section event of the hook in prog.go, returned label, re-dump) are folded through BclLoad; "
                "a whole dump rejected or loaded to other parts is a violation. Non-trivial = every case; distinct by case.")
    mc_format(run)
    mc_load(run)
    tv_load(run, "C09:loader", 40 if run.quick else 600, "C09")
    run.gen_replay("Gen_Format", gen_cfg(dict(Scope="sizes", MaxConsts=1)), ["replay-format"], "C09:sizes")
    # every partition of a tiny file into reads, every partition with <= 2 cuts of a file holding a constant of every kind
    run.gen_replay("Gen_Format", gen_cfg(dict(Scope="parts", MaxConsts=1)), ["replay-format"], "C09:partitions")
    for mod, c, kw in prog_sources_small(run)[: (2 if run.quick else 3)]:
        run.gen_replay(mod, c, ["replay-format"], "C09:" + c.split('"')[1], **kw)
    run.exhaustive = False


def c13(run):
    run.rule = ("MC: for every program record in scope every proper prefix of EncodeProg is not Loadable (the format is prefix-free) and the header predicate classifies "
                "all magic/version values. GEN: all 2^16 magic values and all 2^16 version byte pairs; every cut 0..len-1 of the real dumps of the C03/C04 program families, "
                "of the scaling-law programs and of the specification-assembled files: LoadProg must return an error, never panic, never a program. "
                "MC (MC_Load): the loader machine BclLoad rejects every cut of every file in scope, in the section the cut falls in, under every delivery, and ends. TV (Trace_Load): recorded "
                "LoadProg runs on cut dumps (every cut of dumps up to 64 bytes, seeded cuts of larger ones; reads, section events, returned label) folded through BclLoad: a proper prefix "
                "accepted, or a panic, is a violation. Non-trivial = every case; distinct by case.")
    mc_format(run)
    mc_load(run)
    tv_load(run, "C13:loader", 40 if run.quick else 600, "C13", seed_off=3)
    run.gen_replay("Gen_Format", gen_cfg(dict(Scope="header", MaxConsts=1)), ["replay-format"], "C13:header")
    run.gen_replay("Gen_Format", gen_cfg(dict(Scope="mc", MaxConsts=1)), ["replay-format", "--cuts", "1"], "C13:spec-bytes")
    for mod, c, kw in prog_sources_small(run)[: (2 if run.quick else 3)]:
        run.gen_replay(mod, c, ["replay-format", "--cuts", "1"], "C13:" + c.split('"')[1], **kw)
    # the scaling-law programs (string constants, identifiers, code, line tables and offsets of 1 .. 67 824 bytes): all of them in the
    # thorough tier, a seeded ninth of them in the quick one (of dumps over 6 kB the first and last 1 500 cuts and every 61st between)
    run.gen_replay("Gen_Format", gen_cfg(dict(Scope="sizes", MaxConsts=1)), ["replay-format", "--cuts", "1"] + (["--cutsof", "9", "--seed", str(run.seed)] if run.quick else []), "C13:sizes")
    run.exhaustive = False


# ------------------------------------------------------------------------------------------------ C11
def mc_pipeline(run, maxreads, tokbuf, liveness=True):
    c = "SPECIFICATION FairSpec\nCONSTANTS MaxReads = %d  TokBuf = %d  EmptyIsEOF = FALSE\n" % (maxreads, tokbuf)
    c += "INVARIANTS CloseAtMostOnce CloseBeforeQuiet StopsReading ReadErrPreferred\n"
    if liveness:
        c += "PROPERTIES Returns Quiesces LexerExits\n"
    c += "CHECK_DEADLOCK FALSE\n"
    return run.mc("BclPipeline", c, label="MC_Pipeline(reads<=%d,buf=%d)" % (maxreads, tokbuf), timeout=3000)


def c11(run):
    run.rule = ("MC: BclPipeline (reader, lexer, parser, caller; rendezvous and buffered channels; done; deferred Close) over every reader script of <= R reads "
                "(39 read results, EOF only as the last one of a script: no data / data with 0..2 tokens, a syntax error, a lexical failure; nil / EOF / error) under all interleavings with weak fairness per action: "
                "Returns, Quiesces with Close exactly once, lexer exits, <= 2 reads after a lexical failure, read error preferred (R=2 quick, 3 thorough). "
                "GEN: every script of <= 3 reads with the set of return classes over all schedules (a single class for each: the design is outcome-deterministic; quick runs all scripts of <= 2 reads and a seeded fifteenth of the 3-read ones); the real ParseFile / InterpretFile / UnmarshalFile run on a FileInput playing the "
                "script, with and without jitter at the hook points: must return within the watchdog with a class the model allows, Close exactly once at quiescence, "
                "no goroutine of package bcl left, <= 3 reads after the failure. "
                "STEERED SCHEDULES: Gen_Sched = BclPipeline with a history of the actions taken; seeded simulated behaviours (scripts of <= 3 reads, token channel of the real capacity) are "
                "stepped through the real goroutines, which the blocking hook sink holds at their hook points and releases in the order of the behaviour: return class, number of reads, "
                "reads after the lexical failure and Close count must equal what the model has for that very schedule; the per-goroutine logs of those runs are validated by Trace_Pipe. "
                "Non-trivial = scripts of >= 2 reads (schedules: and >= 12 steps); distinct by script / by schedule.")
    run.assumptions += ["bounded time on the real code is a 3 s watchdog, not a proof", "schedules of the real goroutines are sampled (jitter at the hook points) or steered along simulated model behaviours, not enumerated",
                        "a steered goroutine stops only at hook points; between two of them it runs freely (one model token = two real tokens; the parser's receive is seen after it happened)"]
    mc_pipeline(run, 2 if run.quick else 3, 2)
    c = "SPECIFICATION Spec\nCONSTANTS MaxReads = 3  TokBuf = 2  EmptyIsEOF = FALSE\nINVARIANT Emit\nCHECK_DEADLOCK FALSE\n"
    run.gen_replay("Gen_Pipe", c, ["replay-pipe", "--reps", "6" if run.quick else "12", "--seed", str(run.seed), "--stride", "15" if run.quick else "2"], "C11:scripts", workers=8)
    tv_pipe(run, "C11:tv", 60 if run.quick else 400, ("CloseAtMostOnce",))
    sched(run, "C11:sched", 6000 if run.quick else 150000, ("CloseAtMostOnce",))
    run.exhaustive = True


def sched(run, stage, n, invariants, depth=90, extra=(), tv=True, tokbuf=5, race=False):
    """Steered schedules: behaviours of BclPipeline *with their interleaving* (Gen_Sched, simulated) are stepped through the real
    goroutines held at their hook points; the outcome per schedule is exact. The logs of the first steered ParseFile runs are
    then validated by Trace_Pipe (which knows nothing of the schedule that produced them)."""
    import os
    tr = os.path.join(run.scratch, stage.replace(":", "_") + ".ndjson")
    # TokBuf: the real channel holds 10 tokens; a token of the model is 2 real ones (4 under the nlfirst rendering)
    c = "SPECIFICATION SSpec\nCONSTANTS MaxReads = 3  TokBuf = %d  EmptyIsEOF = FALSE\nINVARIANT Emit\nCHECK_DEADLOCK FALSE\n" % tokbuf
    r, s = run.gen_replay("Gen_Sched", c, ["replay-sched", "--tvout", tr, "--tvmax", ("300" if run.quick else "3000") if tv else "0"] + list(extra), stage,
                          race=race, simulate=10 ** 9, depth=depth, workers=1, max_cases=n)
    ex = s.get("extra") or {}
    for k in ("steered", "steering_lost", "hook_points_steered"):
        run.extra["schedules_" + k] = run.extra.get("schedules_" + k, 0) + ex.get(k, 0)
    nt = ex.get("tv_traces", 0)
    if nt:
        ok = run.tv("Trace_Pipe", {}, tr, stage + ":tlc", nt, invariants=invariants, timeout=1800)
        if ok:
            run.extra["pipeline_events_validated"] = run.extra.get("pipeline_events_validated", 0) + ex.get("events", 0)
    return s


def tv_pipe(run, stage, n, invariants, race=False, seed_off=0):
    import os
    tr = os.path.join(run.scratch, stage.replace(":", "_") + ".ndjson")
    s = run.vh(["drive-pipe", "--n", str(n), "--seed", str(run.seed * 100 + seed_off), "--out", tr], stage + ":drive", race=race)
    run.traces -= s.get("judged", 0)
    ok = run.tv("Trace_Pipe", {}, tr, stage + ":tlc", s.get("judged", 0), invariants=invariants, timeout=1800)
    if ok:
        run.extra["pipeline_events_validated"] = run.extra.get("pipeline_events_validated", 0) + (s.get("extra") or {}).get("events", 0)
    return ok


# ------------------------------------------------------------------------------------------------ C12
def c12(run):
    run.level = "model_checking"
    run.rule = ("MC: MC_Race — lexer and parser around the token channel (capacity edge included) with scalar vector clocks; the line table is written at every refill and "
                "read by every diagnostic; with the accesses inside one critical section NoRace holds in all interleavings (without it TLC finds the race in 7 steps). "
                "TV: real ParseFile calls (many erroneous lines read a few bytes at a time, valid multi-chunk input, early lexical failure, late syntax error with zero-byte "
                "reads and data+EOF, read errors, model scripts; half of them with jitter at the hook points) recorded per goroutine; Trace_Pipe accepts each as a behaviour "
                "of the pipeline and recomputes happens-before from the recorded channel operations and critical sections: no unordered write/read of the line table. "
                "OTHER OBSERVER: the same drivers and N concurrent callers (different inputs; one shared Prog) run from a -race build; any race-detector report with a frame "
                "of package bcl is a violation, and concurrent results must equal the sequential ones. Steered schedules (Gen_Sched behaviours stepped through the real goroutines held at "
                "their hook points) add executions whose interleaving is chosen by TLC; their logs go through the same Trace_Pipe NoRace computation. "
                "Non-trivial = executions with >= 3 reads / every concurrent call.")
    run.assumptions += ["memory other than the instrumented line table is watched by the Go race detector, an external observer (level 'other' for that part)",
                        "goroutine schedules of the real code are sampled, not enumerated"]
    run.mc("MC_Race", cfg(constants=dict(Chunks=3, TokPerChunk=2, TokBuf=2, Guarded=True), invariants=("NoRace",)), label="MC_Race(guarded)")
    q = run.quick
    tv_pipe(run, "C12:hb", 60 if q else 400, ("NoRace", "CloseAtMostOnce"))
    tv_pipe(run, "C12:racedet", 60 if q else 300, ("CloseAtMostOnce",), race=True, seed_off=1)
    sched(run, "C12:sched", 3000 if q else 40000, ("NoRace", "CloseAtMostOnce"))
    # the same with every chunk ending inside a line: diagnostics are formatted for positions behind the last line feed known so far
    # while the lexer is about to add the next chunk's line feeds
    sched(run, "C12:sched-nl", 3000 if q else 40000, ("NoRace", "CloseAtMostOnce"), extra=("--nlfirst", "1"), tokbuf=2, race=True)   # from the -race build: the parser's work after a release is not ordered with the lexer's next refill
    run.vh(["drive-dumpconc", "--n", "8", "--rounds", "6" if q else "60", "--seed", str(run.seed)], "C12:dumps", race=True)
    run.vh(["drive-conc", "--n", "8", "--rounds", "15" if q else "120", "--seed", str(run.seed)], "C12:callers", race=True)
    run.exhaustive = False


# ------------------------------------------------------------------------------------------------ C18
def c18(run):
    run.rule = ("MC + GEN: BclCLI is the flag loop of cmd/bcl as a machine over argument records (short, long, clustered flags, unknown flags, --bdump[=F], --bload[=F], --, -, "
                "six file names: succeeding / syntax error / runtime error / not a .bcl name / a dump / missing); invariant Commute (swapping adjacent pure flag arguments never "
                "changes the outcome class except into help/usage); every argument vector of <= N arguments (N=2 quick, 3 thorough) plus seeded random vectors of <= 5 is run "
                "through the binary built from /repo: exit status, stream discipline, dump file written or not, standard output equal to what the library prints for the same "
                "input and options, --bload of the --bdump file reproducing output and status. Non-trivial = >= 2 arguments; distinct by argv.")
    bin_ = vlib.build_cli()
    q = run.quick
    run.gen_replay("BclCLI", cfg(constants=dict(MaxArgs=2 if q else 3), invariants=("Emit", "Commute")), ["replay-cli", "--bin", bin_], "C18:all")
    run.gen_replay("BclCLI", cfg(constants=dict(MaxArgs=5), invariants=("Emit",)), ["replay-cli", "--bin", bin_], "C18:sim",
                   simulate=10 ** 9, depth=6, workers=1, max_cases=3000 if q else 30000)
    run.exhaustive = False


# ------------------------------------------------------------------------------------------------ C19
def c19(run):
    import os, subprocess
    run.rule = ("GEN + TV: programs of the C01/C03/C04/C17 families (accepted, rejected, failing at run time) are run under all eight combinations of OptDisasm/OptTrace/"
                "OptStats: error, diagnostics, blocks and binding must equal the option-free run, the output writer's lines minus the classified listing/trace/statistics "
                "lines must equal the option-free output, no panic. The extra text of the all-on run is turned into events and validated by Trace_Obs against BclVM on the "
                "decoded real dump: one disassembly line per instruction at its offset with the right mnemonic, one trace pair per executed instruction (offset, mnemonic, "
                "operand depth), as many as xstats.opsRead, counters as the machine computes them. Non-trivial = every program (distinct by source).")
    q = run.quick
    # code longer than 9 999 bytes (a fifth digit in the offset column): offset and mnemonic of every line written out by the specification
    run.gen_replay("Gen_Listing", cfg(invariants=("Emit",)), ["replay-listing"], "C19:listing", workers=2)
    srcs = [("Gen_Total", cfg(constants=dict(Scope="varscale", MaxLen=1), invariants=("Emit",)), {}),
            ("Gen_Prog", gen_cfg(dict(Scope="bind", MaxItems=3)), {}),
            ("Gen_Prog", gen_cfg(dict(Scope="blocks", MaxItems=2)), {}),
            ("Gen_Expr", gen_cfg(dict(Scope="types", ShapeLeaves=3)), {}),
            ("Gen_Expr", gen_cfg(dict(Scope="logic", ShapeLeaves=3)), dict(thin=1)),     # and / or / not two deep over truthy and falsy leaves: all of them
            ("Gen_Expr", gen_cfg(dict(Scope="prec", ShapeLeaves=3)), dict(thin=8)),      # every pair of operators: and/or chains whose jumps land on jumps (a small scope, thinned less)
            ("Gen_Gram", gen_cfg(dict(Scope="all", MaxLen=3)), {}),
            ("Gen_Expr", gen_cfg(dict(Scope="sim", ShapeLeaves=3)), dict(simulate=10 ** 9, depth=12, workers=1, max_cases=20000 if q else 100000))]
    cases = os.path.join(run.scratch, "obs.cases")
    with open(cases, "w") as f:
        for mod, c, kw in srcs:
            kw = dict(kw)
            f.write(json.dumps(dict(thin=kw.pop("thin", 40 if q else 8))) + "\n")   # marker line: the stride of the cases that follow
            f.flush()
            p = subprocess.Popen(["cat"], stdin=subprocess.PIPE, stdout=f, text=True)
            r = run.tlc(mod, c, consumer=p, label="C19:gen:" + mod, **kw)
            p.stdin.close()
            p.wait()
    tr = os.path.join(run.scratch, "obs.ndjson")
    s = run.vh(["drive-obs", "--out", tr, "--max", "3000" if q else "26000", "--stride", "40" if q else "8", "--seed", str(run.seed)], "C19:drive", input_path=cases)
    n = (s.get("extra") or {}).get("traces", 0)
    if n == 0:
        raise Inconclusive("no observation traces")
    run.traces -= s.get("judged", 0)
    exe = vlib.build_harness()

    def redrive(srcp, outp):
        src = open(srcp, "rb").read()
        tmp = outp + ".case"
        with open(tmp, "w") as f:
            f.write(json.dumps(dict(src=list(src))) + "\n")
        subprocess.run([exe, "drive-obs", "--in", tmp, "--out", outp, "--result", outp + ".json"], stdout=subprocess.DEVNULL)
    run.tv("Trace_Obs", VMC, tr, "C19:tlc", s.get("judged", 0), redrive=redrive)
    run.exhaustive = False


# ------------------------------------------------------------------------------------------------ C20
def c20(run):
    run.rule = ("MC + GEN: programs of one block item (exhaustive) and of <= 3 items (seeded simulation: 4 000 quick, 60 000 thorough) from 134 items (all operators, assignments, nested blocks, bind forms incl. a rejected one) are "
                "re-rendered under 40 styles: a separator per token boundary from a pool of 15 (every whitespace character, runs, CR LF, comments with quotes/keywords/';'/'('/"
                "non-ASCII ended by LF or CR, and nothing where the L1 lexer still separates), optional ';' kept or dropped, redundant parentheses at three intensities. "
                "MC invariant SameTokens (the L1 lexer yields the same tokens). GEN: the real compiler must give the same code and constants, output, blocks, binding, warnings "
                "and error (positions aside) for both renderings; all string bodies of <= 3 units over {# ; ( ) SP TAB VT FF CR NEL NBSP quote backslash a} reach print "
                "byte for byte; a comment ends at CR or LF and at none of 13 other bytes. Non-trivial = >= 2 items / >= 2 units; distinct by case.")
    q = run.quick
    run.gen_replay("Gen_Layout", cfg(constants=dict(Scope="render", MaxItems=1), invariants=("Emit", "SameTokens")), ["replay-layout"], "C20:render")
    run.gen_replay("Gen_Layout", cfg(constants=dict(Scope="strings", MaxItems=3), invariants=("Emit",)), ["replay-layout"], "C20:strings")
    run.gen_replay("Gen_Layout", cfg(constants=dict(Scope="comment", MaxItems=1), invariants=("Emit",)), ["replay-layout"], "C20:comment")
    run.gen_replay("Gen_Layout", cfg(constants=dict(Scope="badchar", MaxItems=1), invariants=("Emit",)), ["replay-layout"], "C20:badchar")
    run.gen_replay("Gen_Layout", cfg(constants=dict(Scope="glue", MaxItems=1), invariants=("Emit",)), ["replay-layout"], "C20:glue")
    # n pairs of redundant parentheses around one literal, n up to 1000: the meaning in closed form
    run.gen_replay("Gen_Total", cfg(constants=dict(Scope="parenscale", MaxLen=1), invariants=("Emit",)), ["replay-total"], "C20:parens")
    # two and three items per block: 40 styles x 134^2 (134^3) programs are sampled, seeded (the exhaustive product does not finish)
    run.gen_replay("Gen_Layout", cfg(constants=dict(Scope="render", MaxItems=3), invariants=("Emit", "SameTokens")), ["replay-layout"], "C20:sim",
                   simulate=10 ** 9, depth=6, workers=1, max_cases=4000 if q else 60000, timeout=2400)
    run.exhaustive = False


# ------------------------------------------------------------------------------------------------ C08
def c08(run):
    run.rule = ("MC: the line/column algorithm of the implementation (binary search over recorded newline offsets) equals the definition (1 + newlines before the offset; bytes "
                "since the preceding newline) for every byte string over {LF, CR, a} of length <= L and every offset (L=7 quick, 9 thorough). GEN: 14 statement shapes whose offending "
                "token / failing operation is known by construction (compile errors with quoted token, 'at end', lexical error, runtime errors of binary / parenthesised / unary / "
                "division / unresolved / bind / duplicate-child kinds, the repeated-bind warning) x 14 concrete layout prefixes (blank lines, CR LF, CR, tabs, VT FF, comments, multi-byte "
                "characters, a preceding statement) and 3 scaled prefix kinds x 19 sizes across 240/241, 2287/2288, 4096, 8192, 67823/67824, with line, column and quoted text in "
                "closed form; each is run whole, through InterpretFile in reads of 7 and 4096 bytes, and after Dump + LoadProg; the stored line table must equal the newline offsets. "
                "Non-trivial = every case; distinct by case.")
    run.mc("Gen_Pos", cfg(constants=dict(Scope="mc", MaxLen=7 if run.quick else 9), invariants=("Lemma",)), label="MC_Pos")
    run.gen_replay("Gen_Pos", cfg(constants=dict(Scope="shapes", MaxLen=1), invariants=("Emit",)), ["replay-pos"], "C08:shapes")
    # arbitrary rejected inputs: every diagnostic the real parser prints must sit at the end of a token of the L1 lexer
    import os, subprocess, re
    cases = os.path.join(run.scratch, "diag.cases")
    with open(cases, "w") as f:
        for mod, c, kw in [("Gen_Gram", gen_cfg(dict(Scope="viable", MaxLen=4)), {}),
                           ("Gen_Gram", gen_cfg(dict(Scope="recover", MaxLen=3), invariants=("EmitR",)), {}),
                           ("Gen_Chunks", cfg(constants=dict(Faithful=False, Scope="page", NLex=2), invariants=("EmitCase",)), {})]:
            p = subprocess.Popen(["cat"], stdin=subprocess.PIPE, stdout=f, text=True)
            run.tlc(mod, c, consumer=p, label="C08:gen:" + mod, **kw)
            p.stdin.close()
            p.wait()
    dg = os.path.join(run.scratch, "diags.ndjson")
    s = run.vh(["drive-diag", "--out", dg, "--max", "3000" if run.quick else "24000", "--stride", "40" if run.quick else "5", "--seed", str(run.seed)], "C08:diag", input_path=cases)
    run.traces -= s.get("judged", 0)
    n = (s.get("extra") or {}).get("sources", 0)
    if n == 0:
        raise Inconclusive("no diagnostics collected")
    r = run.tlc("Trace_Pos", cfg(invariants=("Located",)), files={"diags.ndjson": "@" + dg}, label="C08:diag:tlc")
    if r["violated"]:
        m = re.search(r"is violated by the initial state:\s*\n\s*k = (\d+)", r["text"]) or re.search(r"^k = (\d+)", r["text"], re.M)
        kk = int(m.group(1)) if m else 0
        lines = open(dg).read().splitlines()
        j = json.loads(lines[kk - 1]) if 0 < kk <= len(lines) else {}
        run.violations.append(dict(why="a diagnostic of the real parser does not designate the end of a token of the source (invariant Located)", shape="tlc:Located",
                                   case=dict(fam="diag", src=j.get("text"), diags=j.get("diags")), observed=j.get("diags"), confirmed=True, stage="C08:diag:tlc"))
    else:
        run.traces += n
        run.extra["diagnostics_located"] = (s.get("extra") or {}).get("diagnostics", 0)
    chk_comp(run, "C08:comp", 1200 if run.quick else 12000, ("diagloc-mismatch", "lfs-mismatch"), seed_off=8)
    # sources beyond 128 kB: the diagnostic of an over-long short-circuit jump, location in closed form (offsets need 3-byte varints)
    run.gen_replay("Gen_Total", cfg(constants=dict(Scope="scale", MaxLen=1), invariants=("Emit",)), ["replay-total"], "C08:limits")
    run.exhaustive = False


# ------------------------------------------------------------------------------------------------ C14
def c14(run):
    import os
    run.rule = ("(i) CORPUS: 141 recorded version 1.1 files under /verif/corpus — 21 dumps written by the pinned build for sources covering every opcode the compiler emits, every "
                "error class, 2- and 3-byte sizes, and 120 files assembled by the specification's EncodeProg covering NOP, LOOP and negative-int / bool / nil constants — each with the "
                "outcome recorded from the pinned build and re-derived by BclVM; the build under test must load and execute each to the recorded output, blocks, binding, warnings and "
                "error class, and must still write the recorded bytes for the recorded sources. (ii) ISA: TLC enumerates every instruction sequence of <= N instructions (N=3 quick, 4 "
                "thorough) over 57 instruction forms of all 31 opcodes that is well-formed along every path, assembles it with EncodeProg and computes the outcome with BclVM; the real "
                "LoadProg + Execute must agree. (iii) LAYOUT: real dumps of generated programs are decoded by the specification's independent decoder and must re-encode byte-identically "
                "(magic, version, name, code, typed constants, positions, line table, canonical varints, nothing trailing); eight programs (some far larger than the 4096-byte buffers) dumped and loaded at the same time give the files each gives alone. MC: the format functions (shared with C09). "
                "Non-trivial = every file / sequence of >= 2 instructions / every dump.")
    mc_format(run)
    mc_load(run)
    # recorded loads of real dumps folded through the loader machine: what the real loader takes out of a file, section by section,
    # is what the documented layout says is there (shape load:parts-mismatch / load:verdict-mismatch on whole dumps)
    tv_load(run, "C14:loader", 30 if run.quick else 400, "C14", seed_off=5)
    run.vh(["corpus-check", "--dir", os.path.join(vlib.VERIF, "corpus")], "C14:corpus")
    c = cfg(constants=dict(StackSize=1024, BlockStackSize=16, MaxInstr=3 if run.quick else 4), invariants=("Emit",))
    run.gen_replay("Gen_ISA", c, ["replay-isa"], "C14:isa")
    dumps, n = real_dumps(run, "C14:real", dump_sources(run)[1:4], 2000 if run.quick else 14000, stride=30 if run.quick else 5)
    tlc_on_dumps(run, "C14:layout", dumps, n, ("RoundTrip",))
    # dumps whose sizes and lengths need 2- and 3-byte varints (string constants / identifiers / offsets of up to 2400 bytes)
    d2, n2 = real_dumps(run, "C14:sizes", [("Gen_Format", gen_cfg(dict(Scope="sizes", MaxConsts=1)), {})], 400, stride=1, maxlen=12000)
    tlc_on_dumps(run, "C14:sizes-layout", d2, n2, ("RoundTrip",))
    # the scaling-law programs (sizes of 0 .. 67 824 bytes in every section, the empty program): the dump loads and means the same
    run.gen_replay("Gen_Format", gen_cfg(dict(Scope="sizes", MaxConsts=1)), ["replay-format"], "C14:sizes-load")
    # writing a file is a function of the program: dumps (and loads) running at the same time give the bytes each gives alone
    run.vh(["drive-dumpconc", "--n", "8", "--rounds", "8" if run.quick else "80", "--seed", str(run.seed)], "C14:concurrent")
    run.exhaustive = False


# ------------------------------------------------------------------------------------------------ C16
def c16(run):
    run.rule = ("GEN: bind cases (descriptor x block) with the specification's flag 'sens' = two or more failing entries or keys colliding on one field "
                "(the inputs whose outcome depends on map order in an order-sensitive implementation), programs of the C02/C04 families and rejected token "
                "strings with several diagnostics. Each call is repeated R times in one process (R=6 quick, 30 thorough): error text, target, dump bytes, output, "
                "diagnostics, blocks and binding must be identical, the dump must be unchanged by Execute and a second Execute must agree; then three fresh "
                "processes with GOMAXPROCS 1, 4, 16 (one of them running the calls in the opposite order) must produce the same digest for every case; declared types of the same name with different tags are among the targets; every 3-read reader script must give ParseFile the single return class the pipeline model allows; under steered schedules (behaviours of the pipeline model stepped through the real goroutines) one script must give the same diagnostics whatever the interleaving. Non-trivial = sens for bind cases, the family's rule otherwise.")
    reps = 6 if run.quick else 30
    import os
    digs = []
    stages = [("Gen_Bind", gen_cfg(dict(Scope="targets", MaxFields=2, Small=True)), "C16:bind-types", None),
              ("Gen_Bind", gen_cfg(dict(Scope="fields", MaxFields=2, Small=True)), "C16:bind", None),
              ("Gen_Prog", gen_cfg(dict(Scope="bind", MaxItems=3)), "C16:prog-bind", None),
              ("Gen_Prog", gen_cfg(dict(Scope="blocks", MaxItems=2)), "C16:prog-blocks", None),
              ("Gen_Gram", gen_cfg(dict(Scope="recover", MaxLen=3), invariants=("EmitR",)), "C16:diagnostics", None),
              # programs at the implementation limits (stack / block overflow, division by zero ...) between ordinary ones: a failure must leave nothing behind
              ("Gen_Total", cfg(constants=dict(Scope="scale", MaxLen=1), invariants=("Emit",)), "C16:limits", None)]
    if not run.quick:
        stages.append(("Gen_Gram", gen_cfg(dict(Scope="all", MaxLen=3)), "C16:tokens", None))
    # reader scripts through ParseFile (error, program, diagnostics): also compared between the processes with 1, 4 and 16 processors
    stages.append(("Gen_Pipe", "SPECIFICATION Spec\nCONSTANTS MaxReads = 2  TokBuf = 2  EmptyIsEOF = FALSE\nINVARIANT Emit\nCHECK_DEADLOCK FALSE\n", "C16:file-det", None))
    for mod, c, stage, _ in stages:
        # one generation, kept in a file, replayed by several processes
        path = os.path.join(run.scratch, stage.replace(":", "_") + ".cases")
        import subprocess
        with open(path, "w") as f:
            p = subprocess.Popen(["cat"], stdin=subprocess.PIPE, stdout=f, text=True)
            r = run.tlc(mod, c, consumer=p, label=stage + ":gen")
            p.stdin.close()
            p.wait()
        if not r["ok"]:
            raise Inconclusive("generator failed in " + stage)
        d0 = path + ".dig0"
        thin = ["--thin", "12", "--thinsens", "5"] if run.quick else ["--thin", "2"]
        run.vh(["replay-det", "--reps", str(reps), "--digests", d0] + thin, stage + ":replay", input_path=path)
        ref = sorted(open(d0).read().splitlines())
        for procs in (1, 4, 16):
            d = path + ".dig%d" % procs
            exe = vlib.build_harness()
            env = dict(os.environ, GOMAXPROCS=str(procs))
            # the 4-CPU process runs the calls in the opposite order (no dependence on earlier calls in the process)
            extra = ["--reverse", "1"] if procs == 4 else []
            pr = subprocess.run([exe, "replay-det", "--reps", "1", "--digests", d, "--in", path, "--result", path + ".r%d" % procs] + extra + thin, env=env,
                                stdout=subprocess.PIPE, stderr=subprocess.STDOUT, text=True)
            if pr.returncode != 0:
                raise Inconclusive("digest worker failed: " + pr.stdout[-2000:])
            got = sorted(open(d).read().splitlines())
            if got != ref:
                a, b = ref, got
                diff = [x + " vs " + y for x, y in zip(a, b) if x != y][:3]
                run.violations.append(dict(why="outcome digest differs between processes (GOMAXPROCS=%d)" % procs, shape="nondeterministic:process",
                                           case=dict(stage=stage, digests=diff), observed=diff, confirmed=True, stage=stage))
        run.extra.setdefault("fresh_process_runs", 0)
        run.extra["fresh_process_runs"] += 3
    # the file variants: the model gives every reader script exactly one return class, so the real calls must not vary between runs
    c = "SPECIFICATION Spec\nCONSTANTS MaxReads = 3  TokBuf = 2  EmptyIsEOF = FALSE\nINVARIANT Emit\nCHECK_DEADLOCK FALSE\n"
    # the diagnostics of an input must not depend on the schedule: steered schedules of the pipeline model, the same script under
    # many interleavings, with the payload rendered so that chunks end inside a line (the line table lags behind the parser)
    sched(run, "C16:sched", 8000 if run.quick else 100000, (), extra=("--samelog", "1", "--nlfirst", "1"), tv=False, tokbuf=2)
    sched(run, "C16:sched-lf", 3000 if run.quick else 40000, (), extra=("--samelog", "1"), tv=False)
    run.gen_replay("Gen_Pipe", c, ["replay-pipe", "--reps", "8" if run.quick else "20", "--seed", str(run.seed + 5), "--stride", "60" if run.quick else "12", "--minreads", "3"],
                   "C16:pipeline", workers=8)
    run.exhaustive = False


CHECKS = {
    "C01": (c01, "model_checking"),
    "C02": (c02, "model_checking"),
    "C03": (c03, "model_checking"),
    "C04": (c04, "model_checking"),
    "C05": (c05, "model_checking"),
    "C06": (c06, "model_checking"),
    "C07": (c07, "model_checking"),
    "C08": (c08, "model_checking"),
    "C09": (c09, "model_checking"),
    "C10": (c10, "model_checking"),
    "C11": (c11, "model_checking"),
    "C12": (c12, "model_checking"),
    "C13": (c13, "model_checking"),
    "C14": (c14, "model_checking"),
    "C18": (c18, "model_checking"),
    "C19": (c19, "model_checking"),
    "C20": (c20, "model_checking"),
    "C15": (c15, "model_checking"),
    "C16": (c16, "model_checking"),
    "C17": (c17, "model_checking"),
}


def replay(pid, path):
    """Re-run one recorded violation and print both sides."""
    v = json.load(open(path))
    stage = v.get("stage", "")
    fam = (v.get("case") or {}).get("fam", "prog")
    exe = vlib.build_harness()
    tmp = path + ".case"
    with open(tmp, "w") as f:
        f.write(json.dumps(v["case"]) + "\n")
    p = subprocess.run([exe, "replay-" + fam, "--in", tmp], stdout=subprocess.PIPE, text=True)
    os.unlink(tmp)
    s = json.loads(p.stdout)
    print("specification (case):", json.dumps(v["case"])[:2000])
    print("recorded observation:", json.dumps(v.get("observed"))[:2000])
    if s.get("mismatch_count"):
        print("re-run: STILL FAILS:", s["mismatches"][0]["why"])
        print("observed now:", json.dumps(s["mismatches"][0]["observed"])[:2000])
        print("VIOLATION property=%s replay=%s" % (pid, path))
        return 1
    print("re-run: passes now")
    return 0
