"""Per-property checks. Each function drives the engines of vlib for one property (DESIGN.md section 6)."""
import json, os, subprocess
import vlib
from vlib import cfg, Inconclusive, log


def gen_cfg(constants, invariants=("Emit",)):
    return cfg(constants=constants, invariants=invariants)


# ------------------------------------------------------------------------------------------------ C01
def c01(run):
    run.rule = ("GEN: TLC enumerates expression cases (types scope: every unary/binary/boolean operator over the full literal pool "
                "incl. hex/octal/exponent/escaped spellings, carried as literals, variables and fields; shape scope: all two-level "
                "operator trees; sim: seeded random deep trees) with the meaning BclSem gives them; each is run through bcl.Interpret. "
                "Non-trivial = at least two operators, or one binary operator whose operands are of different kinds; distinct by source text.")
    run.assumptions += ["values outside the exactly computable domain (|int| >= 2^30, non-dyadic or long floats, exponent-form prints) are OOD: skipped and counted, never judged",
                        "runtime-error wording is not pinned by C01: a different text on a still-failing program is DRIFT"]
    run.gen_replay("Gen_Expr", gen_cfg(dict(Scope="types", ShapeLeaves=3)), ["replay-prog"], "C01:types")
    run.gen_replay("Gen_Expr", gen_cfg(dict(Scope="shape", ShapeLeaves=3 if run.quick else 4)), ["replay-prog"], "C01:shape")
    n = 20000 if run.quick else 300000
    run.gen_replay("Gen_Expr", gen_cfg(dict(Scope="sim", ShapeLeaves=3)), ["replay-prog"], "C01:sim",
                   simulate=10 ** 9, depth=8 if run.quick else 12, workers=1, max_cases=n)
    run.exhaustive = False


# ------------------------------------------------------------------------------------------------ C02..C04
def c02(run):
    run.rule = ("GEN: all programs 'prelude; def a { <= N items }; print' over declarations with/without initialiser, embedded "
                "assignments, shadowing, field/variable name reuse and nested blocks (N=2 quick, 3 thorough), each with the meaning "
                "BclSem gives it (prints, block tree, compile/runtime error), run through bcl.Interpret. Non-trivial = block body of "
                "at least two items; distinct by source text.")
    run.gen_replay("Gen_Prog", gen_cfg(dict(Scope="scope", MaxItems=2 if run.quick else 3)), ["replay-prog"], "C02:scope")
    run.exhaustive = True


def c03(run):
    run.rule = ("GEN: all sequences of <= N toplevel items (N=2 quick, 3 thorough) over named/unnamed blocks of two types with "
                "16 body shapes (fields, re-assignment, TYPE/NAME, variables, nested blocks with colliding keys, a failing statement); "
                "compared: the []Block tree incl. Go dynamic types and the blocks returned with a runtime error. "
                "Non-trivial = at least two block definitions; distinct by source text.")
    run.assumptions += ["programs never read a child block as a value nor assign a field named like an existing child key (undefined by the property)"]
    run.gen_replay("Gen_Prog", gen_cfg(dict(Scope="blocks", MaxItems=2 if run.quick else 3)), ["replay-prog"], "C03:blocks")
    run.gen_replay("Gen_Prog", gen_cfg(dict(Scope="scope", MaxItems=2)), ["replay-prog"], "C03:scope")
    run.exhaustive = True


def c04(run):
    run.rule = ("GEN: all sequences of <= N toplevel items (N=3 quick, 4 thorough) over 4 block definitions and 18 bind forms "
                "(every selector incl. an unknown one x every target incl. an unknown one); compared: binding kind and blocks, "
                "warning count, error class. Non-trivial = at least one bind and one block; distinct by source text.")
    run.gen_replay("Gen_Prog", gen_cfg(dict(Scope="bind", MaxItems=3 if run.quick else 4)), ["replay-prog"], "C04:bind")
    run.exhaustive = True


CHECKS = {
    "C01": (c01, "model_checking"),
    "C02": (c02, "model_checking"),
    "C03": (c03, "model_checking"),
    "C04": (c04, "model_checking"),
}


def replay(pid, path):
    """Re-run one recorded violation and print both sides."""
    v = json.load(open(path))
    stage = v.get("stage", "")
    fam = (v.get("case") or {}).get("fam", "prog")
    exe = vlib.build_harness()
    tmp = path + ".case"
    with open(tmp, "w") as f:
        f.write(json.dumps(v["case"]) + "\n")
    p = subprocess.run([exe, "replay-" + fam, "--in", tmp], stdout=subprocess.PIPE, text=True)
    os.unlink(tmp)
    s = json.loads(p.stdout)
    print("specification (case):", json.dumps(v["case"])[:2000])
    print("recorded observation:", json.dumps(v.get("observed"))[:2000])
    if s.get("mismatch_count"):
        print("re-run: STILL FAILS:", s["mismatches"][0]["why"])
        print("observed now:", json.dumps(s["mismatches"][0]["observed"])[:2000])
        print("VIOLATION property=%s replay=%s" % (pid, path))
        return 1
    print("re-run: passes now")
    return 0
