---- MODULE Gen_Big ----
\* GEN front end for C01: integers beyond what TLC's own integers hold. BCL ints are 64-bit; the language definition compares
\* and adds them exactly. Here a numeral is a sequence of decimal digits (most significant first, no leading zero) with its own
\* arithmetic: comparison by length then digit by digit, school addition and subtraction. The pool sits around 2^31, 2^32, 2^53
\* (where a float64 stops telling neighbours apart), 2^62, 10^18 and 2^63 - 1. Results beyond 2^63 - 1 are outside the domain
\* (OOD: not emitted). Every case is a whole program with the lines it must print.
EXTENDS Integers, Sequences, TLC, Json
D(s) == [i \in 1..Len(s) |-> s[i] - 48]                       \* ASCII -> digits
A(n) == [i \in 1..Len(n) |-> n[i] + 48]                       \* digits -> ASCII
Pool == << <<50,49,52,55,52,56,51,54,52,55>>,                                              \* 2147483647 = 2^31 - 1
           <<50,49,52,55,52,56,51,54,52,56>>,                                              \* 2^31
           <<52,50,57,52,57,54,55,50,57,53>>,                                              \* 2^32 - 1
           <<52,50,57,52,57,54,55,50,57,54>>,                                              \* 2^32
           <<57,48,48,55,49,57,57,50,53,52,55,52,48,57,57,49>>,                            \* 2^53 - 1
           <<57,48,48,55,49,57,57,50,53,52,55,52,48,57,57,50>>,                            \* 2^53
           <<57,48,48,55,49,57,57,50,53,52,55,52,48,57,57,51>>,                            \* 2^53 + 1
           <<57,48,48,55,49,57,57,50,53,52,55,52,48,57,57,52>>,                            \* 2^53 + 2
           <<57,57,57,57,57,57,57,57,57,57,57,57,57,57,57,57,57,57>>,                      \* 10^18 - 1
           <<49,48,48,48,48,48,48,48,48,48,48,48,48,48,48,48,48,48,48>>,                   \* 10^18
           <<49,48,48,48,48,48,48,48,48,48,48,48,48,48,48,48,48,48,49>>,                   \* 10^18 + 1
           <<52,54,49,49,54,56,54,48,49,56,52,50,55,51,56,55,57,48,52>>,                   \* 2^62
           <<52,54,49,49,54,56,54,48,49,56,52,50,55,51,56,55,57,48,53>>,                   \* 2^62 + 1
           <<57,50,50,51,51,55,50,48,51,54,56,53,52,55,55,53,56,48,54>>,                   \* 2^63 - 2
           <<57,50,50,51,51,55,50,48,51,54,56,53,52,55,55,53,56,48,55>>,                   \* 2^63 - 1
           <<49>>, <<50>> >>
\* the same numbers spelled in hexadecimal (a table of the definition "0x digits are base 16")
HexOf == [i \in 1..Len(Pool) |->
           CASE i = 6 -> <<48,120,50,48,48,48,48,48,48,48,48,48,48,48,48,48>>              \* 0x20000000000000
             [] i = 7 -> <<48,120,50,48,48,48,48,48,48,48,48,48,48,48,48,49>>              \* 0x20000000000001
             [] i = 14 -> <<48,120,55,102,102,102,102,102,102,102,102,102,102,102,102,102,102,101>>   \* 0x7ffffffffffffffe
             [] i = 15 -> <<48,88,55,70,70,70,70,70,70,70,70,70,70,70,70,70,70,70>>        \* 0X7FFFFFFFFFFFFFFF
             [] OTHER -> <<>>]
Max63 == D(Pool[15])
\* ---- arithmetic on numerals
Less(a, b) == \/ Len(a) < Len(b)
              \/ Len(a) = Len(b) /\ \E i \in 1..Len(a) : a[i] < b[i] /\ \A j \in 1..(i - 1) : a[j] = b[j]
RECURSIVE Strip(_)
Strip(a) == IF Len(a) > 1 /\ a[1] = 0 THEN Strip(Tail(a)) ELSE a
Pad(a, n) == [i \in 1..n |-> IF i <= n - Len(a) THEN 0 ELSE a[i - (n - Len(a))]]
RECURSIVE AddR(_, _, _, _)
AddR(a, b, i, carry) == IF i = 0 THEN (IF carry = 1 THEN <<1>> ELSE <<>>)
                        ELSE LET s == a[i] + b[i] + carry IN Append(AddR(a, b, i - 1, s \div 10), s % 10)
Add(a, b) == LET n == IF Len(a) > Len(b) THEN Len(a) ELSE Len(b) IN Strip(AddR(Pad(a, n), Pad(b, n), n, 0))
RECURSIVE SubR(_, _, _, _)
SubR(a, b, i, borrow) == IF i = 0 THEN <<>>
                         ELSE LET s == a[i] - b[i] - borrow IN Append(SubR(a, b, i - 1, IF s < 0 THEN 1 ELSE 0), IF s < 0 THEN s + 10 ELSE s)
Sub(a, b) == LET n == Len(a) IN Strip(SubR(a, Pad(b, n), n, 0))         \* a >= b
T == <<116, 114, 117, 101>>
Fa == <<102, 97, 108, 115, 101>>
Bool(x) == IF x THEN T ELSE Fa
Ops == {"==", "!=", "<", "<=", ">", ">=", "+", "-"}
OpB(o) == CASE o = "==" -> <<61, 61>> [] o = "!=" -> <<33, 61>> [] o = "<" -> <<60>> [] o = "<=" -> <<60, 61>>
            [] o = ">" -> <<62>> [] o = ">=" -> <<62, 61>> [] o = "+" -> <<43>> [] o = "-" -> <<45>>
\* the printed result of a op b, or <<>> when outside the domain
Res(o, a, b) == CASE o = "==" -> Bool(a = b) [] o = "!=" -> Bool(a # b) [] o = "<" -> Bool(Less(a, b)) [] o = "<=" -> Bool(~Less(b, a))
                  [] o = ">" -> Bool(Less(b, a)) [] o = ">=" -> Bool(~Less(a, b))
                  [] o = "+" -> (LET s == Add(a, b) IN IF Less(Max63, s) THEN <<>> ELSE A(s))
                  [] o = "-" -> IF a = b THEN <<48>> ELSE IF Less(a, b) THEN <<45>> \o A(Sub(b, a)) ELSE A(Sub(a, b))
VARIABLES i, j, op, style
vars == <<i, j, op, style>>
Init == i = 0 /\ j = 0 /\ op = "" /\ style = 0
P1 == i = 0 /\ \E x \in 1..Len(Pool) : i' = x /\ UNCHANGED <<j, op, style>>
P2 == i > 0 /\ j = 0 /\ \E y \in 1..Len(Pool), o \in Ops, st \in 0..3 : j' = y /\ op' = o /\ style' = st /\ UNCHANGED i
Next == P1 \/ P2
Spec == Init /\ [][Next]_vars
Kw(s) == CASE s = "print" -> <<112, 114, 105, 110, 116, 32>> [] s = "var" -> <<118, 97, 114, 32>>
SpA == IF style = 3 /\ HexOf[i] # <<>> THEN HexOf[i] ELSE Pool[i]
SpB == IF style = 3 /\ HexOf[j] # <<>> THEN HexOf[j] ELSE Pool[j]
\* style 0: literals; 1: through variables; 2: negated operands compared / subtracted the other way round; 3: hexadecimal spellings
Src == CASE style \in {0, 3} -> Kw("print") \o SpA \o <<32>> \o OpB(op) \o <<32>> \o SpB \o <<10>> \o Kw("print") \o SpA \o <<10>>
         [] style = 1 -> Kw("var") \o <<97, 32, 61, 32>> \o Pool[i] \o <<10>> \o Kw("var") \o <<98, 32, 61, 32>> \o Pool[j] \o <<10>>
                         \o Kw("print") \o <<97, 32>> \o OpB(op) \o <<32, 98, 10>> \o Kw("print") \o <<97, 10>>
         [] style = 2 -> Kw("print") \o <<45>> \o Pool[i] \o <<32>> \o OpB(op) \o <<32, 45>> \o Pool[j] \o <<10>> \o Kw("print") \o <<45>> \o Pool[i] \o <<10>>
\* -a op -b: comparisons turn round, -a + -b = -(a + b), -a - -b = b - a
R == IF style = 2
       THEN (CASE op \in {"==", "!="} -> Res(op, D(Pool[i]), D(Pool[j]))
               [] op \in {"<", "<=", ">", ">="} -> Res(op, D(Pool[j]), D(Pool[i]))
               [] op = "+" -> (LET s == Res("+", D(Pool[i]), D(Pool[j])) IN IF s = <<>> THEN <<>> ELSE <<45>> \o s)
               [] op = "-" -> Res("-", D(Pool[j]), D(Pool[i])))
       ELSE Res(op, D(Pool[i]), D(Pool[j]))
Echo == IF style = 2 THEN <<45>> \o Pool[i] ELSE Pool[i]
Emit == (j > 0 /\ R # <<>>) =>
        PrintT(<<"CASE", ToJson([fam |-> "prog", src |-> Src, class |-> "ok", out |-> <<R, Echo>>, err |-> "", warn |-> 0, result |-> <<>>,
                                  bkind |-> "none", bblocks |-> <<>>, nt |-> TRUE])>>)
\* sanity of the numeral arithmetic itself: a + b - b = a, and exactly one of a < b, a = b, b < a
Lemma == (j > 0) => LET a == D(Pool[i]) b == D(Pool[j]) IN
                    /\ Sub(Add(a, b), b) = a
                    /\ (IF a = b THEN ~Less(a, b) /\ ~Less(b, a) ELSE Less(a, b) # Less(b, a))
====
