---- MODULE MC_Chain ----
\* Design-level refinement check (MC): for every program of the Gen_Prog families the L1 meaning (BclSem!Meaning on the AST) equals
\* the outcome of the whole L2 chain on its rendering: L1 lexer (BclLex) on the bytes -> compiler machine (BclCompiler) -> VM
\* machine (BclVM) — class, printed lines, block tree, binding, warning count and error text — and the code the compiler machine
\* emits is well-formed along every path (PathsOk of BclISA; the design-level half of C10). Two independently structured
\* definitions of the language agree before either is used as an oracle for the code.
EXTENDS Gen_Prog
Lx == INSTANCE BclLex
C == INSTANCE BclCompiler WITH LocalsMax <- 8, JumpMax <- 65535
M == INSTANCE BclVM WITH StackSize <- 16, BlockStackSize <- 4
\* ---- conversions between the L1 (string-named) and L2 (byte-named) worlds
Keys == {"x", "y", "f", "g", "a", "b", "c", "n", "m", "z", "TYPE", "NAME", "a.n", "b.n", "c.n", "c.m", "a.m", "a.x", "a.z", "b.y", "c.Q", "Q", "H", ""}
KeyBytes(k) == CASE k = "a.n" -> <<97, 46, 110>> [] k = "b.n" -> <<98, 46, 110>> [] k = "c.n" -> <<99, 46, 110>> [] k = "c.m" -> <<99, 46, 109>>
                 [] k = "a.m" -> <<97, 46, 109>> [] k = "a.x" -> <<97, 46, 120>> [] k = "a.z" -> <<97, 46, 122>> [] k = "b.y" -> <<98, 46, 121>> [] k = "c.Q" -> <<99, 46>> \o NameBytes("Q")
                 [] OTHER -> NameBytes(k)
KeyStr(bs) == IF \E k \in Keys : KeyBytes(k) = bs THEN CHOOSE k \in Keys : KeyBytes(k) = bs ELSE "?"
RECURSIVE BlkB(_)
BlkB(b) == [type |-> NameBytes(b.type), name |-> NameBytes(b.name),
            ents |-> [i \in 1..Len(b.ents) |-> [k |-> KeyBytes(b.ents[i].k), kind |-> b.ents[i].kind, v |-> b.ents[i].v,
                                                 b |-> IF b.ents[i].kind = "blk" THEN <<BlkB(b.ents[i].b)>> ELSE <<>>]]]
BlksB(bs) == [i \in 1..Len(bs) |-> BlkB(bs[i])]
ConstV(c) == CASE c.t = "int" -> IntV(c.n) [] c.t = "str" -> StrV(c.s) [] OTHER -> OodV("float-const")
ConstRaw(c) == [t |-> IF c.t = "flt" THEN "float" ELSE c.t, i |-> c.n, raw |-> c.s]
ErrText(e) == CASE e.kind = "op" -> e.txt
                [] e.kind = "unresolved" -> "identifier '" \o KeyStr(e.a) \o "' not resolved as var or field"
                [] e.kind = "child-duplicate" -> "child " \o KeyStr(e.a) \o " duplicate at parent"
                [] e.kind = "bind-none" -> "bind: no blocks of type " \o KeyStr(e.a)
                [] e.kind = "bind-count" -> "bind: found " \o DecS(e.n) \o " blocks of type " \o KeyStr(e.a) \o " but expected just 1"
                [] OTHER -> "L2:" \o e.kind
ToksOf(bs) == LET ts == Lx!RefTokens(bs) IN
              [i \in 1..Len(ts) |-> [k |-> ts[i].k, pos |-> ts[i].pos, msg |-> ts[i].msg,
                                     text |-> IF ts[i].k \in {"ERR", "FAIL", "EOF"} THEN <<>> ELSE SubSeq(bs, ts[i].from + 1, ts[i].pos)]]
Compiled == C!Compile(ToksOf(RenSeq(prog)))
Chain ==
  LET c == Compiled IN
  IF c.hadError THEN [class |-> "compile-error", out |-> <<>>, result |-> <<>>, bkind |-> "none", bblocks |-> <<>>, warn |-> 0, err |-> ""]
  ELSE LET v == M!RunVM(M!InitVM([code |-> c.code, consts |-> [i \in 1..Len(c.consts) |-> ConstV(c.consts[i])]])) IN
       [class |-> IF v.ood THEN "ood" ELSE IF v.err.kind # "" THEN "runtime-error" ELSE "ok",
        out |-> v.out, result |-> v.result, bkind |-> v.binding.kind, bblocks |-> v.binding.blocks, warn |-> v.warn,
        err |-> IF v.err.kind = "" THEN "" ELSE ErrText(v.err)]
Ref ==
  LET m == Meaning(prog) IN
  [class |-> m.class, out |-> m.out, result |-> BlksB(m.result), bkind |-> m.binding.kind, bblocks |-> BlksB(m.binding.blocks),
   warn |-> m.warn, err |-> m.err]
Refines == Complete => (LET r == Ref c == Chain IN r.class = "ood" \/ c.class = "ood" \/ r = c)
\* the compiler machine's code is well-formed along every path whenever it accepts (C10, design level)
CodeWellFormed == Complete => (LET c == Compiled IN c.hadError \/ c.ood \/
                     M!PathsOk([code |-> c.code, consts |-> [i \in 1..Len(c.consts) |-> ConstRaw(c.consts[i])]]))
====
