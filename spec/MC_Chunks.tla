---- MODULE MC_Chunks ----
EXTENDS BclLexer, FiniteSets
Ref == INSTANCE BclLex
CONSTANTS Alphabet, MaxLen, AllowEmpty
\* all byte strings up to MaxLen
Inputs == UNION { [1..n -> Alphabet] : n \in 0..MaxLen }
\* all partitions of bs given as a set of cut offsets (subset of 1..Len-1), plus optional empty chunks
RECURSIVE Split(_, _, _)
Split(bs, cuts, from) ==
  IF cuts = {} THEN << SubSeq(bs, from + 1, Len(bs)) >>
  ELSE LET c == CHOOSE x \in cuts : \A y \in cuts : x <= y IN
       << SubSeq(bs, from + 1, c) >> \o Split(bs, cuts \ {c}, c)
VARIABLES bs, res, phase
vars == <<bs, res, phase>>
Init == bs = <<>> /\ res = <<>> /\ phase = 0
Choose == /\ phase = 0 /\ bs' \in Inputs /\ phase' = 1 /\ res' = res
Project(toks, win) == [i \in 1..Len(toks) |-> [k |-> toks[i].k, pos |-> toks[i].pos, msg |-> toks[i].msg, text |-> toks[i].text]]
RefProject(b, toks) == [i \in 1..Len(toks) |-> [k |-> toks[i].k, pos |-> toks[i].pos, msg |-> toks[i].msg,
                          text |-> IF toks[i].k \in {"ERR", "FAIL", "EOF"} THEN <<>> ELSE SubSeq(b, toks[i].from + 1, toks[i].pos)]]
Check == /\ phase = 1 /\ phase' = 2 /\ bs' = bs
         /\ res' = { [cuts |-> cuts, e |-> e, r |-> LexChunks(IF e /\ Len(bs) > 0 THEN <<Head(Split(bs, cuts, 0)), <<>>>> \o Tail(Split(bs, cuts, 0)) ELSE Split(bs, cuts, 0))]
                      : cuts \in SUBSET (1..(Len(bs) - 1)), e \in (IF AllowEmpty THEN BOOLEAN ELSE {FALSE}) }
Next == Choose \/ Check
Spec == Init /\ [][Next]_vars
\* every partition gives the reference tokens and line table
Agree == phase = 2 => \A x \in res : /\ Project(x.r.out, 0) = RefProject(bs, Ref!RefTokens(bs))
                                      /\ LET all == Ref!RefNewlines(bs)  lastp == x.r.out[Len(x.r.out)].pos IN
                                         IF x.r.out[Len(x.r.out)].k = "EOF" THEN x.r.lfs = all
                                         ELSE /\ Len(x.r.lfs) <= Len(all) /\ x.r.lfs = SubSeq(all, 1, Len(x.r.lfs))
                                              /\ \A i \in 1..Len(all) : all[i] < lastp => i <= Len(x.r.lfs)
====
