---- MODULE BclCompiler ----
\* L2: parse.go as a Step-function machine over the token sequence (the Pratt recursion defunctionalised into an explicit
\* continuation stack ks); emits real version 1.1 bytecode with one position per byte, and the diagnostics with their tokens.
\* One StepC per control label; RunC iterates it (one TLC state per program when used inside an invariant).
EXTENDS Integers, Sequences, FiniteSets, TLC
CONSTANTS LocalsMax, JumpMax

\* ---------- tokens: [k, text, pos, msg]
ZeroTok == [k |-> "FAIL", text |-> <<>>, pos |-> 0, msg |-> ""]
IsEnd(t) == t.k \in {"FAIL", "EOF"}

\* ---------- ISA numbering
OpNum(o) == CASE o = "NOP" -> 0 [] o = "RET" -> 1 [] o = "PRINT" -> 2 [] o = "SETLOCAL" -> 3 [] o = "GETLOCAL" -> 4
              [] o = "DEFBLOCK" -> 5 [] o = "ENDBLOCK" -> 6 [] o = "SETFIELD" -> 7 [] o = "GETFIELD" -> 8 [] o = "CONST" -> 9
              [] o = "NIL" -> 10 [] o = "ZERO" -> 11 [] o = "ONE" -> 12 [] o = "TRUE" -> 13 [] o = "FALSE" -> 14 [] o = "NOT" -> 15
              [] o = "EQ" -> 16 [] o = "LT" -> 17 [] o = "GT" -> 18 [] o = "ADD" -> 19 [] o = "SUB" -> 20 [] o = "MUL" -> 21
              [] o = "DIV" -> 22 [] o = "NEG" -> 23 [] o = "UNPLUS" -> 24 [] o = "JUMP" -> 25 [] o = "LOOP" -> 26 [] o = "JFALSE" -> 27
              [] o = "POP" -> 28 [] o = "POPN" -> 29 [] o = "BIND" -> 30
EncUv(v) ==
  IF v <= 240 THEN <<v>>
  ELSE IF v <= 2287 THEN << (v - 240) \div 256 + 241, (v - 240) % 256 >>
  ELSE IF v <= 67823 THEN << 249, (v - 2288) \div 256, (v - 2288) % 256 >>
  ELSE << 250, v \div 65536, (v \div 256) % 256, v % 256 >>

\* ---------- literal conversion (L1 functions, small domain)
RECURSIVE DigitsVal(_, _, _)
DigitVal(c) == IF c >= 48 /\ c <= 57 THEN c - 48 ELSE IF c >= 97 /\ c <= 102 THEN c - 87 ELSE IF c >= 65 /\ c <= 70 THEN c - 55 ELSE 99
DigitsVal(bs, base, acc) ==
  IF bs = <<>> THEN acc
  ELSE IF acc < 0 \/ DigitVal(Head(bs)) >= base THEN -1
  ELSE IF acc > 100000000 THEN -2            \* beyond the computable domain
  ELSE DigitsVal(Tail(bs), base, acc * base + DigitVal(Head(bs)))
\* value of an INT token text, -1 = invalid literal, -2 = out of domain
IntOf(t) ==
  IF Len(t) >= 2 /\ t[1] = 48 /\ t[2] \in {120, 88} THEN (IF Len(t) = 2 THEN -1 ELSE DigitsVal(SubSeq(t, 3, Len(t)), 16, 0))
  ELSE IF Len(t) >= 2 /\ t[1] = 48 THEN DigitsVal(Tail(t), 8, 0)
  ELSE DigitsVal(t, 10, 0)
\* strings: the escapes of Go's double-quoted literals: \a \b \f \n \r \t \v \\ \" , \ooo (3 octal digits, <= 255), \xhh (a byte), \uhhhh
\* (a code point, UTF-8 encoded; surrogates are invalid). \U and anything else: not ok (the caller treats it as out of domain). [ok, s]
Utf8(cp) == IF cp < 128 THEN <<cp>> ELSE IF cp < 2048 THEN <<192 + (cp \div 64), 128 + (cp % 64)>>
            ELSE <<224 + (cp \div 4096), 128 + ((cp \div 64) % 64), 128 + (cp % 64)>>
HexVal(bs) == DigitsVal(bs, 16, 0)
RECURSIVE Unq(_)
Unq(bs) ==
  LET bad == [ok |-> FALSE, s |-> <<>>] IN
  IF bs = <<>> THEN [ok |-> TRUE, s |-> <<>>]
  ELSE IF Head(bs) = 92 THEN
       (IF Len(bs) < 2 THEN bad
        ELSE LET c == bs[2] IN
             IF c = 120 THEN (IF Len(bs) < 4 \/ HexVal(SubSeq(bs, 3, 4)) < 0 THEN bad
                              ELSE LET r == Unq(SubSeq(bs, 5, Len(bs))) IN [ok |-> r.ok, s |-> <<HexVal(SubSeq(bs, 3, 4))>> \o r.s])
             ELSE IF c = 117 THEN (IF Len(bs) < 6 \/ HexVal(SubSeq(bs, 3, 6)) < 0 THEN bad
                                   ELSE LET cp == HexVal(SubSeq(bs, 3, 6)) r == Unq(SubSeq(bs, 7, Len(bs))) IN
                                        IF cp >= 55296 /\ cp <= 57343 THEN bad ELSE [ok |-> r.ok, s |-> Utf8(cp) \o r.s])
             ELSE IF c >= 48 /\ c <= 55 THEN (IF Len(bs) < 4 \/ DigitsVal(SubSeq(bs, 2, 4), 8, 0) < 0 \/ DigitsVal(SubSeq(bs, 2, 4), 8, 0) > 255 THEN bad
                                               ELSE LET r == Unq(SubSeq(bs, 5, Len(bs))) IN [ok |-> r.ok, s |-> <<DigitsVal(SubSeq(bs, 2, 4), 8, 0)>> \o r.s])
             ELSE LET r == Unq(SubSeq(bs, 3, Len(bs)))
                      v == CASE c = 92 -> 92 [] c = 34 -> 34 [] c = 110 -> 10 [] c = 116 -> 9 [] c = 114 -> 13 [] c = 97 -> 7 [] c = 98 -> 8
                             [] c = 102 -> 12 [] c = 118 -> 11 [] OTHER -> -1
                  IN IF v < 0 THEN bad ELSE [ok |-> r.ok, s |-> <<v>> \o r.s])
  ELSE LET r == Unq(Tail(bs)) IN [ok |-> r.ok, s |-> <<Head(bs)>> \o r.s]
Unquote(text) == Unq(SubSeq(text, 2, Len(text) - 1))

\* ---------- constants: [t, n, s]  (t: "int" | "str" | "flt"; flt keeps its spelling in s)
CInt(n) == [t |-> "int", n |-> n, s |-> <<>>]
CStr(s) == [t |-> "str", n |-> 0, s |-> s]
CFlt(text) == [t |-> "flt", n |-> 0, s |-> text]

\* ---------- compiler state
InitC(toks) ==
  [ toks |-> toks, i |-> 0, cur |-> ZeroTok, prev |-> ZeroTok,
    hadError |-> FALSE, hadLexFail |-> FALSE, panic |-> FALSE,
    code |-> <<>>, positions |-> <<>>, consts |-> <<>>, refs |-> <<>>,    \* refs: seq of [name, idx]
    locals |-> <<>>, depth |-> 0, diags |-> <<>>, localMax |-> 0, depthMax |-> 0,
    ks |-> <<>>, mode |-> <<"begin">>, done |-> FALSE, ood |-> FALSE ]

ErrorAt(s, t, msg) ==
  [s EXCEPT !.panic = TRUE, !.hadError = TRUE,
            !.diags = Append(@, [pos |-> t.pos, at |-> IF t.k = "EOF" THEN "end" ELSE IF t.k \in {"ERR", "FAIL"} THEN "none" ELSE "tok",
                                 tok |-> IF t.k \in {"EOF", "ERR", "FAIL"} THEN <<>> ELSE t.text, msg |-> msg])]
Error(s, msg) == ErrorAt(s, s.prev, msg)
ErrorAtCur(s, msg) == ErrorAt(s, s.cur, msg)
\* advance(): prev := cur; pull tokens, reporting ERR tokens, until a non-ERR token or the end of the stream
RECURSIVE Pull(_)
Pull(s) ==
  IF s.i >= Len(s.toks) THEN s
  ELSE LET t == s.toks[s.i + 1]
           s1 == [s EXCEPT !.i = s.i + 1, !.cur = t, !.hadLexFail = (@ \/ t.k = "FAIL")]
       IN IF t.k = "ERR" THEN Pull(ErrorAtCur(s1, t.msg)) ELSE s1
Adv(s) == Pull([s EXCEPT !.prev = s.cur])
Check(s, k) == s.cur.k = k
CheckEnd(s) == IsEnd(s.cur)
Match(s, k) == IF Check(s, k) THEN Adv(s) ELSE s
Consume(s, k, msg) == IF Check(s, k) THEN Adv(s) ELSE ErrorAtCur(s, msg)

EmitByte(s, b) == [s EXCEPT !.code = Append(@, b), !.positions = Append(@, s.prev.pos)]
RECURSIVE EmitBytes(_, _)
EmitBytes(s, bs) == IF bs = <<>> THEN s ELSE EmitBytes(EmitByte(s, Head(bs)), Tail(bs))
EmitOp(s, o) == EmitByte(s, OpNum(o))
EmitOpA(s, o, a) == EmitBytes(EmitOp(s, o), EncUv(a))
RECURSIVE FindRef(_, _, _)
FindRef(refs, name, i) == IF i = 0 THEN -1 ELSE IF refs[i].name = name THEN refs[i].idx ELSE FindRef(refs, name, i - 1)
\* [s, idx]
IdentConst(s, name) ==
  LET j == FindRef(s.refs, name, Len(s.refs)) IN
  IF j >= 0 THEN [s |-> s, idx |-> j]
  ELSE [s |-> [s EXCEPT !.consts = Append(@, CStr(name)), !.refs = Append(@, [name |-> name, idx |-> Len(s.consts)])], idx |-> Len(s.consts)]
MakeConst(s, c) ==
  IF c.t = "str" /\ c.s = <<>> THEN IdentConst(s, <<>>)
  ELSE [s |-> [s EXCEPT !.consts = Append(@, c)], idx |-> Len(s.consts)]
EmitConst(s, c) == LET r == MakeConst(s, c) IN EmitOpA(r.s, "CONST", r.idx)
PopN(s, n) == IF n = 0 THEN s ELSE IF n = 1 THEN EmitOp(s, "POP") ELSE EmitOpA(s, "POPN", n)
EmitJump(s, o) == EmitBytes(EmitOp(s, o), <<255, 255>>)          \* operand offset = Len(code) - 2 (0-based) afterwards
PatchJump(s, off) ==
  LET jump == Len(s.code) - off - 2 IN
  IF jump > JumpMax THEN Error(s, "jump too long")
  ELSE [s EXCEPT !.code[off + 1] = jump \div 256, !.code[off + 2] = jump % 256]

Push(s, f) == [s EXCEPT !.ks = Append(@, f)]
Ret(s) == [s EXCEPT !.mode = <<"ret">>]
Go(s, m) == [s EXCEPT !.mode = m]

Prec(k) == CASE k \in {"PLUS", "MINUS"} -> 7 [] k \in {"STAR", "SLASH"} -> 8 [] k = "OR" -> 2 [] k = "AND" -> 3
             [] k \in {"EE", "BE"} -> 5 [] k \in {"LT", "LE", "GT", "GE"} -> 6 [] OTHER -> 0
HasPrefix(k) == k \in {"LPAREN", "MINUS", "PLUS", "NOT", "IDENT", "STR", "INT", "FLOAT", "TRUE", "FALSE", "NIL"}

RECURSIVE ResolveLocal(_, _, _)
ResolveLocal(locals, name, i) ==
  IF i = 0 THEN -1 ELSE IF locals[i].name = name /\ locals[i].depth # -1 THEN i - 1 ELSE ResolveLocal(locals, name, i - 1)
RECURSIVE DupCount(_, _, _, _)
\* declVar's loop, from the innermost local outward; it reports every match (there is no break after the error)
DupCount(locals, name, depth, i) ==
  IF i = 0 THEN 0
  ELSE IF locals[i].depth # -1 /\ locals[i].depth < depth THEN 0
  ELSE (IF locals[i].name = name THEN 1 ELSE 0) + DupCount(locals, name, depth, i - 1)
RECURSIVE ErrorN(_, _, _)
ErrorN(s, msg, n) == IF n = 0 THEN s ELSE ErrorN(Error(s, msg), msg, n - 1)

\* ---------- statements
StBegin(s) == Go(Adv(s), <<"prog">>)
StProg(s) ==
  IF CheckEnd(s) THEN
     LET s1 == Adv(s) IN
     IF s1.hadError THEN [s1 EXCEPT !.done = TRUE]
     ELSE [EmitOp(PopN(s1, Len(s1.locals)), "RET") EXCEPT !.done = TRUE]
  ELSE Go(Push(s, <<"kTop">>), <<"decl">>)
StDecl(s) ==
  IF Check(s, "VAR") THEN Go(Push(Adv(s), <<"kDeclTail">>), <<"varDecl">>)
  ELSE Go(Push(s, <<"kDeclTail">>), <<"stmt">>)
StVarDecl(s) ==
  LET s1 == Consume(s, "IDENT", "expected variable name") IN
  IF s1.panic THEN Ret(s1)
  ELSE LET name == s1.prev.text
           s2 == ErrorN(s1, "variable with this name already present in this scope", DupCount(s1.locals, name, s1.depth, Len(s1.locals)))
           s3 == IF Len(s2.locals) = LocalsMax THEN Error(s2, "too many local variables")
                 ELSE [s2 EXCEPT !.locals = Append(@, [name |-> name, depth |-> -1]),
                                 !.localMax = IF Len(s2.locals) + 1 > @ THEN Len(s2.locals) + 1 ELSE @]
       IN IF Check(s3, "EQ") THEN Go(Push(Adv(s3), <<"kDefVar">>), <<"pp", 1>>)
          ELSE Go(EmitOp(s3, "NIL"), <<"defVar">>)
StDefVar(s) == Ret(IF s.locals = <<>> THEN s ELSE [s EXCEPT !.locals[Len(s.locals)].depth = s.depth])
StStmt(s) ==
  IF Check(s, "PRINT") THEN Go(Push(Adv(s), <<"kEmit", "PRINT">>), <<"pp", 1>>)
  ELSE IF Check(s, "EVAL") THEN Go(Push(Adv(s), <<"kEmit", "POP">>), <<"pp", 1>>)
  ELSE IF Check(s, "DEF") THEN Go(Adv(s), <<"block">>)
  ELSE IF Check(s, "BIND") THEN Go(Adv(s), <<"bind">>)
  ELSE IF s.depth > 0 THEN Go(Push(s, <<"kEmit", "POP">>), <<"pp", 1>>)
  ELSE Ret(ErrorAtCur(s, "expected statement"))
StBlock(s) ==
  LET s1 == Consume(s, "IDENT", "expected block type") IN
  IF s1.panic THEN Ret(s1)
  ELSE LET btype == s1.prev.text
           s2 == Match(s1, "STR")
           bname == IF Check(s1, "STR") THEN (LET u == Unquote(s1.cur.text) IN IF u.ok THEN u.s ELSE <<>>) ELSE <<>>
           nameOod == Check(s1, "STR") /\ ~Unquote(s1.cur.text).ok        \* a name literal outside the decoder's domain
           s3 == LET c3 == Consume(s2, "LCURLY", "expected '{'") IN IF nameOod THEN [c3 EXCEPT !.ood = TRUE] ELSE c3
           r1 == IdentConst(s3, btype)
           r2 == MakeConst(r1.s, CStr(bname))
           s4 == EmitBytes(EmitOpA(r2.s, "DEFBLOCK", r1.idx), EncUv(r2.idx))
       IN Go([s4 EXCEPT !.depth = @ + 1, !.depthMax = IF s4.depth + 1 > @ THEN s4.depth + 1 ELSE @], <<"blockLoop">>)
EndScope(s) ==
  LET d == s.depth - 1
      n == Cardinality({ i \in 1..Len(s.locals) : s.locals[i].depth > d })   \* locals of deeper scopes are a suffix
      RECURSIVE Cnt(_, _)
      Cnt(i, acc) == IF i = 0 \/ ~(s.locals[i].depth > d) THEN acc ELSE Cnt(i - 1, acc + 1)
      k == Cnt(Len(s.locals), 0)
  IN PopN([s EXCEPT !.depth = d, !.locals = SubSeq(@, 1, Len(@) - k)], k)
StBlockLoop(s) ==
  IF ~Check(s, "RCURLY") /\ ~CheckEnd(s) THEN Go(Push(s, <<"kBlockDecl">>), <<"decl">>)
  ELSE LET s1 == IF s.hadLexFail THEN s ELSE Consume(s, "RCURLY", "expected '}'") IN
       Ret(EmitOp(EndScope(s1), "ENDBLOCK"))
StBind(s) ==
  LET s1 == Consume(s, "IDENT", "expected block type") IN
  IF s1.panic THEN Ret(s1)
  ELSE LET btype == s1.prev.text
           selmsg == "expected 1,first,last,all as a block selector"
           hasSel == Check(s1, "COLON")
           a1 == IF hasSel THEN Adv(s1) ELSE s1
           \* selector
           sIntOk == hasSel /\ Check(a1, "INT")
           sIdOk == hasSel /\ Check(a1, "IDENT")
           a2 == IF ~hasSel THEN a1
                 ELSE IF sIntOk THEN (LET b == Adv(a1) IN IF b.prev.text # <<49>> THEN Error(b, selmsg) ELSE b)
                 ELSE IF sIdOk THEN (LET b == Adv(a1) w == b.prev.text IN
                                     IF w \in {<<102, 105, 114, 115, 116>>, <<108, 97, 115, 116>>, <<97, 108, 108>>} THEN b ELSE Error(b, selmsg))
                 ELSE ErrorAtCur(a1, selmsg)
           sel == IF ~hasSel \/ sIntOk THEN 1
                  ELSE IF sIdOk THEN (LET w == a1.cur.text IN IF w = <<102, 105, 114, 115, 116>> THEN 2 ELSE IF w = <<108, 97, 115, 116>> THEN 3 ELSE IF w = <<97, 108, 108>> THEN 15 ELSE 1)
                  ELSE 1
           a3 == Consume(a2, "ARROW", "expected '->'")
       IN IF a3.panic THEN Ret(a3)
          ELSE LET tmsg == "expected bind target ('struct' or 'slice')"
                   a4 == Consume(a3, "IDENT", tmsg)
               IN IF a4.panic THEN Ret(a4)
                  ELSE LET w == a4.prev.text
                           tgt == IF w = <<115, 116, 114, 117, 99, 116>> THEN 16 ELSE IF w = <<115, 108, 105, 99, 101>> THEN 32 ELSE 0
                           a5 == IF tgt = 0 THEN Error(a4, tmsg) ELSE a4
                           a6 == IF sel = 15 /\ tgt # 32 THEN Error(a5, "bind of multiple blocks requires slice target") ELSE a5
                       IN IF a6.panic THEN Ret(a6)
                          ELSE LET r == IdentConst(a6, btype) IN
                               Ret(EmitByte(EmitOpA(r.s, "BIND", r.idx), tgt + sel))
\* ---------- expressions
StIdent(s2, name, ca) ==
  LET li == ResolveLocal(s2.locals, name, Len(s2.locals)) IN
  IF li < 0 /\ s2.depth = 0 THEN Ret(Error(s2, "undefined variable"))
  ELSE LET r == IF li >= 0 THEN [s |-> s2, idx |-> li] ELSE IdentConst(s2, name)
           getOp == IF li >= 0 THEN "GETLOCAL" ELSE "GETFIELD"
           setOp == IF li >= 0 THEN "SETLOCAL" ELSE "SETFIELD"
       IN IF ca /\ Check(r.s, "EQ") THEN Go(Push(Adv(r.s), <<"kEmitA", setOp, r.idx>>), <<"pp", 1>>)
          ELSE Ret(EmitOpA(r.s, getOp, r.idx))
StPP(s, prec) ==
  LET s1 == Adv(s)
      t == s1.prev
      ca == prec <= 1
  IN IF ~HasPrefix(t.k) THEN Ret(Error(s1, "expected expression"))
     ELSE LET s2 == Push(s1, <<"kInfix", prec, ca>>) IN
          CASE t.k = "INT" -> (LET v == IntOf(t.text) IN
                               IF v = -1 THEN Ret(Error(s2, "invalid int literal"))
                               ELSE IF v = -2 THEN Ret([s2 EXCEPT !.ood = TRUE])
                               ELSE IF v = 0 THEN Ret(EmitOp(s2, "ZERO")) ELSE IF v = 1 THEN Ret(EmitOp(s2, "ONE"))
                               ELSE Ret(EmitConst(s2, CInt(v))))
            [] t.k = "FLOAT" -> (IF Len(t.text) > 12 THEN Ret([s2 EXCEPT !.ood = TRUE]) ELSE Ret(EmitConst(s2, CFlt(t.text))))
            [] t.k = "STR" -> (LET u == Unquote(t.text) IN
                               IF ~u.ok THEN Ret([s2 EXCEPT !.ood = TRUE]) ELSE Ret(EmitConst(s2, CStr(u.s))))
            [] t.k = "TRUE" -> Ret(EmitOp(s2, "TRUE")) [] t.k = "FALSE" -> Ret(EmitOp(s2, "FALSE")) [] t.k = "NIL" -> Ret(EmitOp(s2, "NIL"))
            [] t.k = "LPAREN" -> Go(Push(s2, <<"kParen">>), <<"pp", 1>>)
            [] t.k = "MINUS" -> Go(Push(s2, <<"kEmit", "NEG">>), <<"pp", 9>>)
            [] t.k = "PLUS" -> Go(Push(s2, <<"kEmit", "UNPLUS">>), <<"pp", 9>>)
            [] t.k = "NOT" -> Go(Push(s2, <<"kEmit", "NOT">>), <<"pp", 4>>)
            [] t.k = "IDENT" -> StIdent(s2, t.text, ca)
BinOps(k) == CASE k = "EE" -> <<"EQ">> [] k = "BE" -> <<"EQ", "NOT">> [] k = "LT" -> <<"LT">> [] k = "LE" -> <<"GT", "NOT">>
               [] k = "GT" -> <<"GT">> [] k = "GE" -> <<"LT", "NOT">> [] k = "PLUS" -> <<"ADD">> [] k = "MINUS" -> <<"SUB">>
               [] k = "STAR" -> <<"MUL">> [] k = "SLASH" -> <<"DIV">>
StInfix(s0, f) ==
  LET prec == f[2]  ca == f[3]  k == s0.cur.k  q == Prec(k) IN
  IF q > 0 /\ prec <= q THEN
     LET s1 == Push(Adv(s0), f) IN
     CASE k = "AND" -> (LET a2 == EmitJump(s1, "JFALSE")  j == Len(a2.code) - 2 IN
                        Go(Push(EmitOp(a2, "POP"), <<"kPatch", j>>), <<"pp", 3>>))
       [] k = "OR" -> (LET o2 == EmitJump(s1, "JFALSE")  mid == Len(o2.code) - 2
                           o3 == EmitJump(o2, "JUMP")    end == Len(o3.code) - 2
                           o4 == PatchJump(o3, mid)
                       IN Go(Push(EmitOp(o4, "POP"), <<"kPatch", end>>), <<"pp", 2>>))
       [] OTHER -> Go(Push(s1, <<"kEmitOps", BinOps(k)>>), <<"pp", q + 1>>)
  ELSE IF ca /\ Check(s0, "EQ") THEN Ret(Error(Adv(s0), "invalid assignment target"))
  ELSE Ret(s0)
RECURSIVE EmitOps(_, _)
EmitOps(s, os) == IF os = <<>> THEN s ELSE EmitOps(EmitOp(s, Head(os)), Tail(os))
RECURSIVE SyncTo(_)
SyncTo(s) == IF CheckEnd(s) \/ s.cur.k \in {"VAR", "DEF", "PRINT", "EVAL"} THEN s ELSE SyncTo(Adv(s))
StRet(s) ==
  LET f == s.ks[Len(s.ks)]
      s0 == [s EXCEPT !.ks = SubSeq(s.ks, 1, Len(s.ks) - 1)]
  IN CASE f[1] = "kTop" -> Go(Match(s0, "SEMICOLON"), <<"prog">>)
       [] f[1] = "kDeclTail" -> (IF s0.panic /\ s0.depth = 0 THEN Ret(SyncTo([s0 EXCEPT !.panic = FALSE])) ELSE Ret(s0))
       [] f[1] = "kDefVar" -> Go(s0, <<"defVar">>)
       [] f[1] = "kEmit" -> Ret(EmitOp(s0, f[2]))
       [] f[1] = "kEmitOps" -> Ret(EmitOps(s0, f[2]))
       [] f[1] = "kEmitA" -> Ret(EmitOpA(s0, f[2], f[3]))
       [] f[1] = "kParen" -> Ret(Consume(s0, "RPAREN", "expected ')' after expression"))
       [] f[1] = "kBlockDecl" -> (LET b1 == IF s0.panic THEN Adv(s0) ELSE s0 IN Go(Match(b1, "SEMICOLON"), <<"blockLoop">>))
       [] f[1] = "kPatch" -> Ret(PatchJump(s0, f[2]))
       [] f[1] = "kInfix" -> StInfix(s0, f)
StepC(s) ==
  LET m == s.mode IN
  CASE m[1] = "begin" -> StBegin(s) [] m[1] = "prog" -> StProg(s) [] m[1] = "decl" -> StDecl(s)
    [] m[1] = "varDecl" -> StVarDecl(s) [] m[1] = "defVar" -> StDefVar(s) [] m[1] = "stmt" -> StStmt(s)
    [] m[1] = "block" -> StBlock(s) [] m[1] = "blockLoop" -> StBlockLoop(s) [] m[1] = "bind" -> StBind(s)
    [] m[1] = "pp" -> StPP(s, m[2]) [] m[1] = "ret" -> StRet(s)
RECURSIVE RunC(_)
RunC(s) == IF s.done \/ s.ood THEN s ELSE RunC(StepC(s))
Compile(toks) == RunC(InitC(toks))
====
