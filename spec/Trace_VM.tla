---- MODULE Trace_VM ----
\* TV of the real VM (C01..C04 at every step): each recorded execution (trace.ndjson: a "reset" line carrying the real dump and the
\* final observations, then one "step" line per executed instruction with pc, block depth and the whole typed operand stack) must be
\* a behaviour of BclVM running the *decoded real dump*: at every step the logged pc, stack and block depth equal the machine's
\* state, then the machine takes its step; at the end error class, printed bytes, number of result blocks, warnings and binding agree.
EXTENDS BclVM, TLC, Json
Trace == ndJsonDeserialize("trace.ndjson")
VARIABLES l, st, hdr
vars == <<l, st, hdr>>
ProgOf(h) == LET d == DecodeProg(h.dump) IN [code |-> d.code, consts |-> [i \in 1..Len(d.consts) |-> ValOf(d.consts[i])]]
Idle == [done |-> TRUE, ood |-> FALSE]
Init == l = 1 /\ st = Idle /\ hdr = [e |-> "none"] /\ TLCSet(1, 1)
RECURSIVE Flat(_)
Flat(lines) == IF lines = <<>> THEN <<>> ELSE Head(lines) \o <<10>> \o Flat(Tail(lines))
\* the recorded end of an execution agrees with the machine's final state (an execution that left the computable domain is not judged)
Final(s, h) ==
  IF h.e = "none" THEN TRUE ELSE IF s.ood THEN TRUE ELSE
     /\ s.done /\ s.err.kind = h.err /\ Flat(s.out) = h.out /\ Len(s.result) = h.nres /\ s.warn = h.warn
     /\ (h.err = "" => s.binding.kind = h.bkind /\ Len(s.binding.blocks) = h.bn)
     /\ s.ops = h.nsteps
Reset == /\ l <= Len(Trace) /\ Trace[l].e = "reset" /\ Final(st, hdr)
         /\ hdr' = Trace[l] /\ st' = InitVM(ProgOf(Trace[l])) /\ l' = l + 1
Step  == /\ l <= Len(Trace) /\ Trace[l].e = "step"
         /\ (st.ood \/ (~st.done /\ Trace[l].pc = st.pc /\ Trace[l].stack = st.stack /\ Trace[l].btos = Len(st.blocks)))
         /\ st' = IF st.ood THEN st ELSE StepVM(st)
         /\ l' = l + 1 /\ hdr' = hdr
\* after the last line the final state of the last execution is judged too
Finish == l = Len(Trace) + 1 /\ Final(st, hdr) /\ l' = l + 1 /\ UNCHANGED <<st, hdr>>
Next == Reset \/ Step \/ Finish
Spec == Init /\ [][Next]_vars
Mark == TLCSet(1, IF l > TLCGet(1) THEN l ELSE TLCGet(1))
Accepted == IF TLCGet(1) = Len(Trace) + 2 THEN TRUE ELSE PrintT(<<"REJECTED-AT", TLCGet(1), Len(Trace)>>) /\ FALSE
\* Execute never writes the program (C16 at design level)
ProgStable == [][st.done \/ st'.done \/ ~("prog" \in DOMAIN st) \/ ~("prog" \in DOMAIN st') \/ st'.prog = st.prog]_vars
====
