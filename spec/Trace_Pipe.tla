---- MODULE Trace_Pipe ----
\* TV of the real ParseFile pipeline (C11 protocol, C12 happens-before): every recorded call (traces.ndjson, one object per call
\* with one event log per goroutine role R reader / L lexer / P parser / C caller) must be a behaviour of the pipeline:
\* one cursor per goroutine, TLC finds an interleaving (no wall-clock merging); rendezvous actions consume one event of each
\* partner; the token channel is a FIFO of capacity TokBuf whose contents (kind, position) must match on both sides.
\* Happens-before is recomputed from the recorded channel operations with scalar clocks per goroutine (token send -> receive,
\* the capacity edge "k-th receive before (k+TokBuf)-th send", close -> receive-of-closed) and, for line-table accesses made inside
\* a critical section (event field b = 1), the lock order given by the global sequence numbers q taken inside it.
\* NoRace: no write of the line table by the lexer is unordered with a read by the parser.
EXTENDS Integers, Sequences, TLC, Json, FiniteSets
Traces == ndJsonDeserialize("trace.ndjson")
TokBuf == 10
VARIABLES t, iR, iL, iP, iC, rpc, lpc, ppc, cpc, toks, tokClosed, inpcClosed, done, closeCount, chunk,
          gotR, gotP, clkL, clkP, knowP, knowL, wL, rP, nSend, recvClks, muL, muP, nq, closeClk, race
vars == <<t, iR, iL, iP, iC, rpc, lpc, ppc, cpc, toks, tokClosed, inpcClosed, done, closeCount, chunk,
          gotR, gotP, clkL, clkP, knowP, knowL, wL, rP, nSend, recvClks, muL, muP, nq, closeClk, race>>
Max(a, b) == IF a > b THEN a ELSE b
Log(g) == Traces[t].logs[g]
Has(g, i, k) == t <= Len(Traces) /\ i <= Len(Log(g)) /\ Log(g)[i].k = k
E(g, i) == Log(g)[i]
Init == /\ t = 1 /\ iR = 1 /\ iL = 1 /\ iP = 1 /\ iC = 1 /\ rpc = "read" /\ lpc = "run" /\ ppc = "run" /\ cpc = "rerr"
        /\ toks = <<>> /\ tokClosed = FALSE /\ inpcClosed = FALSE /\ done = FALSE /\ closeCount = 0 /\ chunk = 0
        /\ gotR = -1 /\ gotP = -1 /\ clkL = 0 /\ clkP = 0 /\ knowP = 0 /\ knowL = 0 /\ wL = 0 /\ rP = 0 /\ nSend = 0
        /\ recvClks = <<>> /\ muL = 0 /\ muP = 0 /\ nq = 1 /\ closeClk = 0 /\ race = FALSE /\ TLCSet(1, 1)
U(vs) == UNCHANGED vs
\* ---- reader
RRead == /\ Has("R", iR, "read") /\ rpc = "read"
         /\ LET n == E("R", iR).a e == E("R", iR).b IN
            /\ rpc' = IF e = 1 THEN "senderr" ELSE IF e = 2 /\ n = 0 THEN "sendnil" ELSE "select"
            /\ chunk' = n
         /\ iR' = iR + 1
         /\ U(<<t, iL, iP, iC, lpc, ppc, cpc, toks, tokClosed, inpcClosed, done, closeCount, gotR, gotP, clkL, clkP, knowP, knowL, wL, rP, nSend, recvClks, muL, muP, nq, closeClk, race>>)
Chunk == /\ Has("R", iR, "sent") /\ Has("L", iL, "recv") /\ E("L", iL).b = 1
         /\ rpc = "select" /\ lpc = "run" /\ ~inpcClosed
         /\ E("R", iR).a = chunk /\ E("L", iL).a = chunk
         /\ rpc' = "read" /\ iR' = iR + 1 /\ iL' = iL + 1
         /\ U(<<t, iP, iC, lpc, ppc, cpc, toks, tokClosed, inpcClosed, done, closeCount, chunk, gotR, gotP, clkL, clkP, knowP, knowL, wL, rP, nSend, recvClks, muL, muP, nq, closeClk, race>>)
RSawDone == /\ Has("R", iR, "sawdone") /\ rpc = "select" /\ done /\ rpc' = "senddone" /\ iR' = iR + 1
            /\ U(<<t, iL, iP, iC, lpc, ppc, cpc, toks, tokClosed, inpcClosed, done, closeCount, chunk, gotR, gotP, clkL, clkP, knowP, knowL, wL, rP, nSend, recvClks, muL, muP, nq, closeClk, race>>)
Rerr == /\ Has("R", iR, "rerr") /\ cpc = "rerr" /\ rpc \in {"senderr", "sendnil", "senddone"}
        /\ E("R", iR).a = (IF rpc = "senderr" THEN 1 ELSE 0) /\ gotR' = E("R", iR).a
        /\ rpc' = (IF rpc = "senddone" THEN "close" ELSE "closeinpc") /\ cpc' = "perr" /\ iR' = iR + 1
        /\ U(<<t, iL, iP, iC, lpc, ppc, toks, tokClosed, inpcClosed, done, closeCount, chunk, gotP, clkL, clkP, knowP, knowL, wL, rP, nSend, recvClks, muL, muP, nq, closeClk, race>>)
RCloseInpc == /\ Has("R", iR, "closeinpc") /\ rpc = "closeinpc" /\ inpcClosed' = TRUE /\ rpc' = "close" /\ iR' = iR + 1
              /\ U(<<t, iL, iP, iC, lpc, ppc, cpc, toks, tokClosed, done, closeCount, chunk, gotR, gotP, clkL, clkP, knowP, knowL, wL, rP, nSend, recvClks, muL, muP, nq, closeClk, race>>)
RClose == /\ Has("R", iR, "close") /\ rpc = "close" /\ closeCount' = closeCount + 1 /\ rpc' = "exit" /\ iR' = iR + 1
          /\ U(<<t, iL, iP, iC, lpc, ppc, cpc, toks, tokClosed, inpcClosed, done, chunk, gotR, gotP, clkL, clkP, knowP, knowL, wL, rP, nSend, recvClks, muL, muP, nq, closeClk, race>>)
\* ---- lexer
LSeeClosed == /\ Has("L", iL, "recv") /\ E("L", iL).b = 0 /\ inpcClosed /\ lpc = "run" /\ iL' = iL + 1
              /\ U(<<t, iR, iP, iC, rpc, lpc, ppc, cpc, toks, tokClosed, inpcClosed, done, closeCount, chunk, gotR, gotP, clkL, clkP, knowP, knowL, wL, rP, nSend, recvClks, muL, muP, nq, closeClk, race>>)
LWrite == /\ Has("L", iL, "lfswrite") /\ E("L", iL).q = nq /\ lpc = "run"
          /\ LET held == E("L", iL).b = 1
                 kL == IF held THEN Max(knowL, muP) ELSE knowL IN
             /\ clkL' = clkL + 1 /\ wL' = clkL + 1 /\ knowL' = kL
             /\ race' = (race \/ rP > kL)
             /\ muL' = IF held THEN clkL + 1 ELSE muL
          /\ nq' = nq + 1 /\ iL' = iL + 1
          /\ U(<<t, iR, iP, iC, rpc, lpc, ppc, cpc, toks, tokClosed, inpcClosed, done, closeCount, chunk, gotR, gotP, clkP, knowP, rP, nSend, recvClks, muP, closeClk>>)
LTok == /\ Has("L", iL, "tok") /\ lpc = "run" /\ Len(toks) < TokBuf
        /\ toks' = Append(toks, [k |-> E("L", iL).a, pos |-> E("L", iL).b, clk |-> clkL + 1]) /\ clkL' = clkL + 1 /\ nSend' = nSend + 1
        /\ knowL' = IF nSend + 1 > TokBuf THEN Max(knowL, recvClks[nSend + 1 - TokBuf]) ELSE knowL
        /\ lpc' = IF E("L", iL).a \in {0, 1} THEN "closing" ELSE "run"     \* FAIL = 0, EOF = 1 end the lexer
        /\ iL' = iL + 1
        /\ U(<<t, iR, iP, iC, rpc, ppc, cpc, tokClosed, inpcClosed, done, closeCount, chunk, gotR, gotP, clkP, knowP, wL, rP, recvClks, muL, muP, nq, closeClk, race>>)
LClosed == /\ Has("L", iL, "closed") /\ lpc = "closing" /\ tokClosed' = TRUE /\ lpc' = "exit" /\ iL' = iL + 1
           /\ clkL' = clkL + 1 /\ closeClk' = clkL + 1
           /\ U(<<t, iR, iP, iC, rpc, ppc, cpc, toks, inpcClosed, done, closeCount, chunk, gotR, gotP, clkP, knowP, knowL, wL, rP, nSend, recvClks, muL, muP, nq, race>>)
\* ---- parser
PTok == /\ Has("P", iP, "tok") /\ ppc = "run" /\ toks # <<>> /\ Head(toks).k = E("P", iP).a /\ Head(toks).pos = E("P", iP).b
        /\ toks' = Tail(toks) /\ knowP' = Max(knowP, Head(toks).clk) /\ clkP' = clkP + 1
        /\ recvClks' = Append(recvClks, clkP + 1) /\ iP' = iP + 1
        /\ U(<<t, iR, iL, iC, rpc, lpc, ppc, cpc, tokClosed, inpcClosed, done, closeCount, chunk, gotR, gotP, clkL, knowL, wL, rP, nSend, muL, muP, nq, closeClk, race>>)
PTokClosed == /\ Has("P", iP, "tokclosed") /\ ppc = "run" /\ toks = <<>> /\ tokClosed
              /\ knowP' = Max(knowP, closeClk) /\ iP' = iP + 1
              /\ U(<<t, iR, iL, iC, rpc, lpc, ppc, cpc, toks, tokClosed, inpcClosed, done, closeCount, chunk, gotR, gotP, clkL, clkP, knowL, wL, rP, nSend, recvClks, muL, muP, nq, closeClk, race>>)
PErr == /\ Has("P", iP, "err") /\ ppc = "run" /\ iP' = iP + 1
        /\ U(<<t, iR, iL, iC, rpc, lpc, ppc, cpc, toks, tokClosed, inpcClosed, done, closeCount, chunk, gotR, gotP, clkL, clkP, knowP, knowL, wL, rP, nSend, recvClks, muL, muP, nq, closeClk, race>>)
PRead == /\ Has("P", iP, "lfsread") /\ E("P", iP).q = nq /\ ppc = "run"
         /\ LET held == E("P", iP).b = 1
                kP == IF held THEN Max(knowP, muL) ELSE knowP IN
            /\ clkP' = clkP + 1 /\ rP' = clkP + 1 /\ knowP' = kP
            /\ race' = (race \/ wL > kP)
            /\ muP' = IF held THEN clkP + 1 ELSE muP
         /\ nq' = nq + 1 /\ iP' = iP + 1
         /\ U(<<t, iR, iL, iC, rpc, lpc, ppc, cpc, toks, tokClosed, inpcClosed, done, closeCount, chunk, gotR, gotP, clkL, knowL, wL, nSend, recvClks, muL, closeClk>>)
PParsed == /\ Has("P", iP, "parsed") /\ ppc = "run"
           /\ ppc' = (IF E("P", iP).a # 0 THEN "closedone" ELSE "sendperr") /\ iP' = iP + 1
           /\ U(<<t, iR, iL, iC, rpc, lpc, cpc, toks, tokClosed, inpcClosed, done, closeCount, chunk, gotR, gotP, clkL, clkP, knowP, knowL, wL, rP, nSend, recvClks, muL, muP, nq, closeClk, race>>)
PDone == /\ Has("P", iP, "done") /\ ppc = "closedone" /\ done' = TRUE /\ ppc' = "sendperr" /\ iP' = iP + 1
         /\ U(<<t, iR, iL, iC, rpc, lpc, cpc, toks, tokClosed, inpcClosed, closeCount, chunk, gotR, gotP, clkL, clkP, knowP, knowL, wL, rP, nSend, recvClks, muL, muP, nq, closeClk, race>>)
Perr == /\ Has("P", iP, "perr") /\ ppc = "sendperr" /\ cpc = "perr"
        /\ gotP' = E("P", iP).a /\ ppc' = "exit" /\ cpc' = "both" /\ iP' = iP + 1
        /\ U(<<t, iR, iL, iC, rpc, lpc, toks, tokClosed, inpcClosed, done, closeCount, chunk, gotR, clkL, clkP, knowP, knowL, wL, rP, nSend, recvClks, muL, muP, nq, closeClk, race>>)
\* ---- caller
CGot == /\ Has("C", iC, "got") /\ cpc = "both" /\ E("C", iC).a = gotR /\ E("C", iC).b = gotP /\ cpc' = "ret" /\ iC' = iC + 1
        /\ U(<<t, iR, iL, iP, rpc, lpc, ppc, toks, tokClosed, inpcClosed, done, closeCount, chunk, gotR, gotP, clkL, clkP, knowP, knowL, wL, rP, nSend, recvClks, muL, muP, nq, closeClk, race>>)
AllConsumed == t <= Len(Traces) /\ iR = Len(Log("R")) + 1 /\ iL = Len(Log("L")) + 1 /\ iP = Len(Log("P")) + 1 /\ iC = Len(Log("C")) + 1
\* BclContract on the recorded call: Close once, everyone at exit, return class = read error preferred
Contract == /\ closeCount = 1 /\ Traces[t].closes = 1 /\ rpc = "exit" /\ ppc = "exit" /\ cpc = "ret" /\ lpc = "exit"
            /\ Traces[t].ret = (IF gotR = 1 THEN 3 ELSE gotP)
Reset == /\ AllConsumed /\ Contract
         /\ t' = t + 1 /\ iR' = 1 /\ iL' = 1 /\ iP' = 1 /\ iC' = 1 /\ rpc' = "read" /\ lpc' = "run" /\ ppc' = "run" /\ cpc' = "rerr"
         /\ toks' = <<>> /\ tokClosed' = FALSE /\ inpcClosed' = FALSE /\ done' = FALSE /\ closeCount' = 0 /\ chunk' = 0
         /\ gotR' = -1 /\ gotP' = -1 /\ clkL' = 0 /\ clkP' = 0 /\ knowP' = 0 /\ knowL' = 0 /\ wL' = 0 /\ rP' = 0 /\ nSend' = 0
         /\ recvClks' = <<>> /\ muL' = 0 /\ muP' = 0 /\ nq' = 1 /\ closeClk' = 0 /\ race' = FALSE
Next == RRead \/ Chunk \/ LSeeClosed \/ LWrite \/ LTok \/ LClosed \/ PTok \/ PTokClosed \/ PErr \/ PRead \/ PParsed \/ PDone \/ Perr
        \/ RSawDone \/ Rerr \/ RCloseInpc \/ RClose \/ CGot \/ Reset
Spec == Init /\ [][Next]_vars
Mark == TLCSet(1, Max(TLCGet(1), t))
NoRace == ~race
CloseAtMostOnce == closeCount <= 1
Accepted == IF TLCGet(1) = Len(Traces) + 1 THEN TRUE ELSE PrintT(<<"REJECTED-AT", TLCGet(1), Len(Traces)>>) /\ FALSE
\* merge interleavings that differ only in history
View == <<t, iR, iL, iP, iC, race>>
====
