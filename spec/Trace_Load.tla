---- MODULE Trace_Load ----
\* TV of the real loader (C09, C13, C14): a batch of recorded Prog.Load runs (loadruns.ndjson). Each record holds the bytes the
\* source had (a real dump, whole or cut), the loader's events in program order — every read of the source with the number of
\* bytes it delivered and whether it reported the end (n > 0 with the end: the last bytes together with io.EOF; 0 without: a zero-byte read), every section event of the hook in prog.go (section number, count) — the label of
\* the returned error ("ok" for nil) and, for an accepted file, the bytes the loaded program dumps to. Judge folds the events
\* through the L2 machine BclLoad:
\*   a read must happen exactly when the machine is blocked (the loader never reads earlier than it needs to, never later),
\*   the section events must be the machine's, in lockstep with the reads,
\*   the verdict must be the machine's (this is the part C09 / C13 state; a complete dump rejected or a proper prefix accepted is
\*   a violation), the error label and the laziness of reads are finer than any property (reported as drift),
\*   the accepted program must dump to the encoding of the machine's parts.
EXTENDS BclLoad, Json, TLC
Batch == ndJsonDeserialize("loadruns.ndjson")
RECURSIVE Fold(_, _, _, _)
Fold(s, ei, evs, i) ==
  IF i > Len(evs) THEN [s |-> s, ei |-> ei, bad |-> ""]
  ELSE LET e == evs[i] IN
    IF e.t = "rd" THEN
      IF ei # Len(s.evs) THEN [s |-> s, ei |-> ei, bad |-> "section-event-missing"]
      ELSE IF e.n > 0 /\ e.b = 0 THEN (IF CanFill(s, e.n) THEN Fold(Run(Fill(s, e.n)), ei, evs, i + 1) ELSE [s |-> s, ei |-> ei, bad |-> "read-not-needed"])
      ELSE IF e.n > 0 THEN (IF CanFillLast(s, e.n) THEN Fold(Run(FillLast(s, e.n)), ei, evs, i + 1) ELSE [s |-> s, ei |-> ei, bad |-> "read-not-needed"])
      ELSE IF e.b = 0 THEN (IF CanZero(s) THEN Fold(s, ei, evs, i + 1) ELSE [s |-> s, ei |-> ei, bad |-> "read-not-needed"])
      ELSE (IF CanEof(s) THEN Fold(Run(FillEof(s)), ei, evs, i + 1) ELSE [s |-> s, ei |-> ei, bad |-> "end-not-needed"])
    ELSE IF ei < Len(s.evs) /\ s.evs[ei + 1] = <<e.a, e.b>> THEN Fold(s, ei + 1, evs, i + 1)
    ELSE [s |-> s, ei |-> ei, bad |-> "section-mismatch"]
Judge(b) ==
  LET f == Fold(InitLoad(b.file), 0, b.evs, 1) s == f.s
      \* the verdict does not depend on the delivery (MC_Load!Verdict): where the recorded events cannot be followed to the end,
      \* the machine's verdict on the same bytes is still known and still compared
      m == IF Done(s) /\ f.bad = "" THEN s ELSE Load(b.file, <<>>)
  IN
  IF m.ood THEN "ood"
  ELSE IF (m.out = "ok") # (b.ret = "ok") THEN "verdict-mismatch"
  ELSE IF f.bad # "" THEN f.bad
  ELSE IF ~Done(s) THEN "returned-early"
  ELSE IF f.ei # Len(s.evs) THEN "section-event-missing"
  ELSE IF s.out # b.ret THEN "reason-mismatch"
  ELSE IF s.out = "ok" /\ EncodeProg([s.parts EXCEPT !.minor = 1]) # b.redump THEN "parts-mismatch"
  ELSE IF (s.out = "ok") # Loadable(b.file) THEN "l1-mismatch"
  ELSE "ok"
VARIABLES k, verdict
\* one initial state per recorded run, judged in a step of its own, so that the workers share the batch
Init == k \in 1..Len(Batch) /\ verdict = "start"
Next == verdict = "start" /\ verdict' = Judge(Batch[k]) /\ UNCHANGED k
Spec == Init /\ [][Next]_<<k, verdict>>
Tally == verdict = "start" \/ PrintT(<<"VERDICT", k, verdict>>)
====
