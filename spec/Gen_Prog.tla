---- MODULE Gen_Prog ----
\* GEN front end for C02 (scoping), C03 (result blocks), C04 (bind): programs are built item by item over several Next
\* levels; a CASE line is printed for every complete program with the meaning BclSem gives it.
EXTENDS BclSem, Json
CONSTANTS Scope,    \* "scope" | "blocks" | "bind" | "sim"
          MaxItems  \* scope: items in the block body (2 or 3); bind: items in the program (3..5)

L1 == Lit(IntV(1))
L2 == Lit(IntV(2))
None == <<"none">>
Opt(s) == IF s = None THEN <<>> ELSE <<s>>
\* ---- scope family (C02): a toplevel prelude, one block with up to MaxItems items (statements, bare expressions,
\* nested named/unnamed blocks holding one item), a trailing print
E0 == { L1, Id("x"), Id("y"), Asg("x", L2), Bin("+", Id("x"), L1), Bin("+", Par(Asg("y", L2)), Id("x")), Id("TYPE"),
        Asg("x", Bin("+", Id("x"), L1)), Bin("+", Asg("f", L2), Id("f")), Asg("x", Asg("f", Asg("y", Bin("+", Id("x"), L1)))) }   \* x = f = y = x + 1
S0 == { SVar("x", FALSE, NoE), SVar("y", FALSE, NoE) } \cup { SVar(n, TRUE, e) : n \in {"x", "y"}, e \in E0 }
        \cup { SPrint(e) : e \in E0 } \cup { SEval(e) : e \in {Asg("x", L2), Asg("y", Bin("+", Id("x"), L1))} }
\* a short-circuit whose skipped right operand ends in an assignment, directly in front of whatever reads the variable next
SC == { SEval(Bin("and", Lit(BoolV(FALSE)), Par(Asg("x", L2)))), SEval(Bin("or", L1, Par(Asg("x", L2)))) }
InB == S0 \cup { SExpr(e) : e \in E0 } \cup SC
Inner == { SDef("b", nm, Opt(s)) : nm \in {"", "n"}, s \in InB \cup {None} }
Item == InB \cup Inner
Firsts == {None} \cup { SVar("x", TRUE, L1), SVar("y", FALSE, NoE), SVar("x", TRUE, Bin("+", Id("x"), L1)), SPrint(Id("x")) }
Lasts == {None, SPrint(Id("x")), SPrint(Id("y")), SPrint(Bin("+", Id("x"), Id("y"))), SVar("x", TRUE, L2), SVar("y", FALSE, NoE)}

\* ---- blocks family (C03): toplevel sequence of named/unnamed blocks of two types with fields, re-assignment, TYPE/NAME reads,
\* nested blocks (duplicate child keys), a variable inside, and a failing statement after k completed blocks
FA == SExpr(Asg("f", L1))
FB == SExpr(Asg("f", L2))
GT == SExpr(Asg("g", Id("TYPE")))
GN == SExpr(Asg("g", Id("NAME")))
VX == SVar("x", TRUE, L2)
GX == SExpr(Asg("g", Id("x")))
Boom == SEval(Bin("+", L1, Lit(NilV)))
Child(nm) == SDef("c", nm, <<FA>>)
Child0(nm) == SDef("c", nm, <<>>)
FC == SExpr(Asg("c", L1))          \* a field whose name is the key of an unnamed child closed later
BBodies == { <<>>, <<FA>>, <<FA, FB>>, <<GT>>, <<GN>>, <<VX, GX>>, <<Child("")>>, <<Child("n")>>, <<Child(""), Child("")>>,
             <<Child("n"), Child("n")>>, <<Child("n"), Child("m")>>, <<Child(""), Child("n")>>, <<FA, Child("n"), GT>>,
             <<SDef("c", "", <<SDef("a", "n", <<GN>>)>>)>>, <<Boom>>, <<FA, Boom>>,
             <<Child0("n"), Child("m")>>, <<Child0(""), Child("n")>>, <<Child0("n")>>, <<FC, Child0("")>>, <<FC, Child("n")>>,
             <<SDef("c", "n", <<Child0("")>>), SDef("c", "m", <<SDef("a", "", <<FA>>)>>)>>,
             <<SDef("c", "", <<GN>>)>>,                     \* NAME read in an unnamed block inside a (possibly named) one: the innermost block's own, empty name
             <<SExpr(Asg("TYPE", L1)), GT>>, <<SExpr(Asg("NAME", L2)), GN, SDef("c", "n", <<GN, GT>>)>> }   \* fields named TYPE / NAME never shadow the built-ins
TopB == { SDef(t, nm, b) : t \in {"a", "b"}, nm \in {"", "n"}, b \in BBodies } \cup { Boom, SPrint(L1), SBind("b", "last", "struct"), SBind("a", "all", "slice") }
        \cup { SDef("a", "Q", <<GN>>), SDef("b", "H", <<GN, Child("Q")>>), SDef("a", "n", <<Child("Q"), Child("Q")>>) }   \* names whose literals need escapes

\* ---- bind family (C04)
BDef == { SDef(t, nm, <<SExpr(Asg("f", L1))>>) : t \in {"a", "b"}, nm \in {"", "n"} }
BBind == { SBind(t, sel, tgt) : t \in {"a"}, sel \in {"none", "one", "first", "last", "all", "bogus"}, tgt \in {"struct", "slice", "bogus"} }
BItem == BDef \cup BBind
\* bindmany: many blocks of the bound type (distinct names, distinct field values) around one or two valid binds
MDef(i) == SDef(IF i \in {2, 5} THEN "b" ELSE "a", CASE i = 1 -> "n" [] i = 2 -> "m" [] i = 3 -> "x" [] i = 4 -> "y" [] OTHER -> "z", <<SExpr(Asg("f", Lit(IntV(i))))>>)
MBind == { SBind("a", sel, tgt) : sel \in {"none", "one", "first", "last", "all"}, tgt \in {"struct", "slice"} }

RECURSIVE CountKind(_, _)
CountKind(ss, k) == IF ss = <<>> THEN 0 ELSE (IF Head(ss)[1] = k THEN 1 ELSE 0) + (IF Head(ss)[1] = "def" THEN CountKind(Head(ss)[4], k) ELSE 0) + CountKind(Tail(ss), k)
VARIABLES prog, body, phase, last
vars == <<prog, body, phase, last>>
Init == prog = <<>> /\ body = <<>> /\ phase = 0 /\ last = None
\* scope: phase 0 -> first; 1..MaxItems -> body items (or stop); 90 -> last; 100 = complete
ScFirst == phase = 0 /\ Scope = "scope" /\ \E f \in Firsts : prog' = Opt(f) /\ phase' = 1 /\ UNCHANGED <<body, last>>
ScItem == /\ Scope = "scope" /\ phase >= 1 /\ phase <= MaxItems
          /\ \/ \E i \in Item : body' = Append(body, i) /\ phase' = phase + 1
             \/ body' = body /\ phase' = 90
          /\ UNCHANGED <<prog, last>>
ScBodyDone == Scope = "scope" /\ phase = MaxItems + 1 /\ phase' = 90 /\ UNCHANGED <<prog, body, last>>
ScLast == /\ Scope = "scope" /\ phase = 90
          /\ \E l \in Lasts : last' = l /\ prog' = prog \o <<SDef("a", "", body)>> \o Opt(l)
          /\ phase' = 100 /\ UNCHANGED body
\* blocks and bind: sequences of items
SeqItem(S) == /\ phase < MaxItems /\ \E i \in S : prog' = Append(prog, i) /\ phase' = phase + 1 /\ UNCHANGED <<body, last>>
BlItem == Scope = "blocks" /\ SeqItem(TopB)
BiItem == Scope = "bind" /\ SeqItem(BItem)
\* the i-th definition is MDef(number of definitions so far + 1): names never repeat, so every block is identifiable
BmItem == /\ Scope = "bindmany" /\ phase < MaxItems
          /\ \/ prog' = Append(prog, MDef(CountKind(prog, "def") + 1))
             \/ CountKind(prog, "bind") < 3 /\ \E b \in MBind : prog' = Append(prog, b)
          /\ phase' = phase + 1 /\ UNCHANGED <<body, last>>
\* fields3 (C02): def a { A  def b { B  def c { C }  D }  E } — the same field name f assigned (or a variable f declared) at several
\* levels, read and re-assigned from the innermost block and after inner blocks have ended: the nearest enclosing holder wins,
\* a closed block's fields are gone
F3A == { None, SExpr(Asg("f", L1)), SVar("f", TRUE, Lit(IntV(5))) }
F3B == { None, SExpr(Asg("f", L2)), SVar("f", TRUE, Lit(IntV(6))) }
F3C == { None, SPrint(Id("f")), SExpr(Asg("f", Bin("+", Id("f"), Lit(IntV(10))))), SExpr(Asg("g", Id("f"))), SExpr(Asg("f", Lit(IntV(3)))) }
F3D == { None, SPrint(Id("f")), SExpr(Asg("g", Id("f"))) }
Fields3 == /\ Scope = "fields3" /\ phase = 0
           /\ \E a \in F3A, b \in F3B, c \in F3C, d \in F3D, e \in F3D, ct \in {"c", "f"} :       \* ct = "f": the innermost block is itself of a type named like the field (still open while read)
                prog' = << SDef("a", "", Opt(a) \o << SDef("b", "", Opt(b) \o (IF c = None THEN <<>> ELSE << SDef(ct, "", <<c>>) >>) \o Opt(d)) >> \o Opt(e)) >>
           /\ phase' = 1 /\ UNCHANGED <<body, last>>
Next == Fields3 \/ ScFirst \/ ScItem \/ ScBodyDone \/ ScLast \/ BlItem \/ BiItem \/ BmItem
Spec == Init /\ [][Next]_vars

RECURSIVE BlkJ(_)
EntJ(e) == IF e.kind = "val" THEN [k |-> e.k, kind |-> "val", t |-> e.v.t, n |-> e.v.n, d |-> e.v.d, s |-> e.v.s, b |-> <<>>]
           ELSE [k |-> e.k, kind |-> "blk", t |-> "", n |-> 0, d |-> 1, s |-> <<>>, b |-> <<BlkJ(e.b)>>]
BlkJ(b) == [type |-> b.type, name |-> b.name, ents |-> [i \in 1..Len(b.ents) |-> EntJ(b.ents[i])]]
NonTrivial == CASE Scope = "scope" -> Len(body) >= 2
                [] Scope = "fields3" -> TRUE
                [] Scope = "blocks" -> CountKind(prog, "def") >= 2
                [] Scope \in {"bind", "bindmany"} -> CountKind(prog, "bind") >= 1 /\ CountKind(prog, "def") >= 1
Case == LET m == Meaning(prog) IN
        [ fam |-> "prog", src |-> RenSeq(prog), class |-> m.class, out |-> m.out, err |-> m.err, warn |-> m.warn,
          result |-> [i \in 1..Len(m.result) |-> BlkJ(m.result[i])],
          bkind |-> m.binding.kind, bblocks |-> [i \in 1..Len(m.binding.blocks) |-> BlkJ(m.binding.blocks[i])], nt |-> NonTrivial ]
Complete == (Scope = "scope" /\ phase = 100) \/ (Scope \in {"blocks", "bind", "bindmany", "fields3"} /\ phase >= 1)
Emit == Complete => PrintT(<<"CASE", ToJson(Case)>>)
====
