---- MODULE Apa_Varint ----
\* Symbolic lemma for Apalache (C09, C14): the sqlite4 varint of every x < 2^32 decodes to x and consists of bytes. The same
\* definitions as BclFormat!EncUv / Uv, restated with type annotations. (The 64-bit version does not terminate; DESIGN.md section 8.)
EXTENDS Integers, Sequences
VARIABLE
  \* @type: Int;
  x

\* @type: (Int) => Seq(Int);
Enc(v) ==
  IF v <= 240 THEN <<v>>
  ELSE IF v <= 2287 THEN << (v - 240) \div 256 + 241, (v - 240) % 256 >>
  ELSE IF v <= 67823 THEN << 249, (v - 2288) \div 256, (v - 2288) % 256 >>
  ELSE IF v < 16777216 THEN << 250, v \div 65536, (v \div 256) % 256, v % 256 >>
  ELSE IF v < 4294967296 THEN << 251, v \div 16777216, (v \div 65536) % 256, (v \div 256) % 256, v % 256 >>
  ELSE << 255, 0 >>

\* @type: (Seq(Int)) => Int;
Dec(b) ==
  IF b[1] <= 240 THEN b[1]
  ELSE IF b[1] <= 248 THEN 240 + 256 * (b[1] - 241) + b[2]
  ELSE IF b[1] = 249 THEN 2288 + 256 * b[2] + b[3]
  ELSE IF b[1] = 250 THEN b[2] * 65536 + b[3] * 256 + b[4]
  ELSE IF b[1] = 251 THEN b[2] * 16777216 + b[3] * 65536 + b[4] * 256 + b[5]
  ELSE -1

Init == x \in 0..4294967295
Next == UNCHANGED x
RoundTrip == Dec(Enc(x)) = x /\ \A i \in DOMAIN Enc(x) : Enc(x)[i] \in 0..255
====
