---- MODULE Gen_Expr ----
\* GEN front end for C01: builds expression cases step by step (so that BFS enumerates the scope on all workers
\* and -simulate samples deep trees) and prints one CASE line per complete case with the meaning BclSem gives it.
EXTENDS BclSem, Json
CONSTANTS Scope,      \* "types" | "prec" | "shape" | "sim"
          ShapeLeaves \* number of leaves used by the shape scope (3 or 4)

I(n) == Lit(IntV(n))
F(n, d) == Lit(FloatV(n, d))
S(s) == Lit(StrV(s))
\* ---- the full leaf pool of the "types" scope: every literal kind and spelling
LeavesPlain == { I(0), I(1), I(2), I(7),
                 F(0, 1), F(1, 2), F(2, 1), F(5, 2), F(1000000, 1), F(1, 16384),
                 S(<<>>), S(<<97>>), S(<<98>>), S(<<97, 98>>), S(<<97, 92>>), S(<<50, 46, 53>>),    \* "2.5": a string that prints like the float 2.5 of this pool           \* "a\\": a literal that ends in an escaped backslash
                 Lit(BoolV(TRUE)), Lit(BoolV(FALSE)), Lit(NilV), Id("x") }
LeavesAlt == { LitS(IntV(7), "hex"), LitS(IntV(7), "oct"), LitS(IntV(0), "HEX"), LitS(IntV(1), "oct"),
               LitS(IntV(8), "oct"), LitS(IntV(493), "oct"), LitS(IntV(255), "hex"),       \* 010, 0755, 0xff: where the base matters
               LitS(FloatV(1, 2), "exp"), LitS(FloatV(2, 1), "EXP"), LitS(FloatV(5, 2), "EXP"),
               LitS(StrV(<<97>>), "hex"), LitS(StrV(<<97, 98>>), "uni"), LitS(StrV(<<98>>), "oct"),
               LitS(StrV(<<99, 233>>), "hex") }       \* "\x63\xe9": a string that is not valid UTF-8 (strings are byte sequences)
LeavesT == LeavesPlain \cup LeavesAlt
BinOps == {"+", "-", "*", "/", "==", "!=", "<", "<=", ">", ">=", "and", "or"}
UnOps == {"-", "+", "not"}
Forms == BinOps \cup { "u" \o o : o \in UnOps } \cup {"asg", "leaf"}
IsUnForm(f) == f \in {"u-", "u+", "unot"}
UnOf(f) == CASE f = "u-" -> "-" [] f = "u+" -> "+" [] f = "unot" -> "not"
Mk(f, a, b) == IF f \in BinOps THEN Bin(f, a, b) ELSE IF IsUnForm(f) THEN Un(UnOf(f), a) ELSE IF f = "asg" THEN Asg("x", a) ELSE a
Styles == {"print", "field", "var", "fld"}

\* ---- the "shape" scope: every tree with two operator levels over a small pool (precedence x associativity x short-circuit)
LeavesS == IF ShapeLeaves = 4 THEN { I(1), I(2), I(3), Id("x") } ELSE { I(1), I(2), Id("x") }
OpsS == {"+", "-", "*", "/", "<", "<=", ">", ">=", "==", "!=", "and", "or"}
D1S == LeavesS \cup { Bin(o, a, b) : o \in OpsS, a \in LeavesS, b \in LeavesS } \cup { Un(o, a) : o \in {"-", "not"}, a \in LeavesS }
          \cup { Asg("x", a) : a \in LeavesS }
TopS == OpsS \cup {"neg", "not", "par", "parr", "asg"}
MkS(o, a, b) == CASE o = "neg" -> Un("-", a) [] o = "not" -> Un("not", a) [] o = "par" -> Bin("*", Par(a), b)
                  [] o = "parr" -> Bin("-", a, Par(b)) [] o = "asg" -> Asg("x", Bin("+", a, b)) [] OTHER -> Bin(o, a, b)

VARIABLES phase, form, ea, eb, style, ok
vars == <<phase, form, ea, eb, style, ok>>
NoX == Lit(NilV)
Init == phase = 0 /\ form = "" /\ ea = NoX /\ eb = NoX /\ style = "" /\ ok = TRUE

\* whole-program rendering of one case under a carrier style
X3 == SVar("x", TRUE, I(3))
IsLeafLit(e) == e[1] = "lit"
Carry(e, nm) == IF IsLeafLit(e) THEN Id(nm) ELSE e
ProgOf(f, a, b, st) ==
  CASE st = "print" -> << X3, SPrint(Mk(f, a, b)), SPrint(Id("x")) >>
    [] st = "field" -> << X3, SDef("b", "", << SExpr(Asg("r", Mk(f, a, b))) >>), SPrint(Id("x")) >>
    [] st = "var" -> << X3, SVar("v0", TRUE, a), SVar("v1", TRUE, b), SVar("r", TRUE, Mk(f, Carry(a, "v0"), Carry(b, "v1"))),
                        SPrint(Id("r")), SPrint(Id("x")) >>
    [] st = "fld" -> << X3, SDef("b", "n", << SExpr(Asg("f0", a)), SExpr(Asg("f1", b)),
                                             SExpr(Asg("r", Mk(f, Carry(a, "f0"), Carry(b, "f1")))) >>), SPrint(Id("x")) >>

\* ---- types scope: form, then left operand, then right operand + style (3 Next levels)
T1 == phase = 0 /\ Scope = "types" /\ \E f \in Forms : form' = f /\ phase' = 1 /\ UNCHANGED <<ea, eb, style, ok>>
T2 == phase = 1 /\ Scope = "types" /\ \E a \in LeavesT : ea' = a /\ phase' = 2 /\ UNCHANGED <<form, eb, style, ok>>
T3 == /\ phase = 2 /\ Scope = "types"
      /\ \E b \in (IF form \in BinOps THEN LeavesT ELSE {NoX}), st \in Styles : eb' = b /\ style' = st
      /\ phase' = 3 /\ UNCHANGED <<form, ea, ok>>
\* ---- shape scope
S1 == phase = 0 /\ Scope = "shape" /\ \E f \in TopS : form' = f /\ phase' = 1 /\ UNCHANGED <<ea, eb, style, ok>>
S2 == phase = 1 /\ Scope = "shape" /\ \E a \in D1S : ea' = a /\ phase' = 2 /\ UNCHANGED <<form, eb, style, ok>>
S3 == /\ phase = 2 /\ Scope = "shape"
      /\ \E b \in (IF form \in {"neg", "not"} THEN {NoX} ELSE D1S) : eb' = b
      /\ style' = "print" /\ phase' = 3 /\ UNCHANGED <<form, ea, ok>>
\* ---- prec scope: every ordered pair of operators in both groupings (and with the unary forms on either operand), over leaf
\* triples that make the two groupings differ in value or in failing: precedence x associativity of every operator token
Trip == { <<I(0), I(2), I(7)>>, <<I(1), I(2), I(3)>>, <<I(2), I(2), I(1)>>, <<I(7), I(0), I(2)>>, <<Lit(BoolV(TRUE)), I(2), I(2)>>, <<S(<<97>>), S(<<98>>), I(2)>>, <<Id("x"), I(1), F(1, 2)>> }
PrecForms == { <<o1, o2, g>> : o1 \in BinOps, o2 \in BinOps, g \in {"L", "R"} } \cup { <<o, u, g>> : o \in BinOps, u \in {"u-", "unot", "u+"}, g \in {"OUT", "INL", "INR"} }
MkP(pf, t) == LET a == t[1] b == t[2] c == t[3] IN
              CASE pf[3] = "L" -> Bin(pf[1], Bin(pf[2], a, b), c)
                [] pf[3] = "R" -> Bin(pf[1], a, Bin(pf[2], b, c))
                [] pf[3] = "OUT" -> Un(UnOf(pf[2]), Bin(pf[1], a, b))
                [] pf[3] = "INL" -> Bin(pf[1], Un(UnOf(pf[2]), a), b)
                [] pf[3] = "INR" -> Bin(pf[1], a, Un(UnOf(pf[2]), b))
\* ---- logic scope: and / or / not nested two deep over every combination of truthy and falsy leaves (short-circuit jumps that
\* land on short-circuit jumps, taken and not taken)
LogicTrip == { <<a, b, c>> : a \in {I(0), I(1)}, b \in {I(0), I(2)}, c \in {I(0), I(7)} }
LogicForms == { <<o1, o2, g>> : o1 \in {"and", "or"}, o2 \in {"and", "or"}, g \in {"L", "R"} } \cup { <<o, "unot", g>> : o \in {"and", "or"}, g \in {"OUT", "INL", "INR"} }
\* not over a parenthesised and / or whose last operand is a comparison (a NOT opcode ends the operand the jump must land behind)
Cmps == {"==", "!=", "<", "<=", ">", ">="}
NotCmp == { Un("not", Par(Bin(lo, t[1], Bin(cm, t[2], t[3])))) : lo \in {"and", "or"}, cm \in Cmps, t \in LogicTrip }
            \cup { Bin(lo2, Un("not", Par(Bin(lo, t[1], Bin(cm, t[2], t[3])))), Id("x")) : lo \in {"and", "or"}, lo2 \in {"and", "or"}, cm \in {"!=", "<="}, t \in LogicTrip }
L1x == /\ phase = 0 /\ Scope = "logic"
       /\ \E e \in { <<MkP(pf, t), pf[1]>> : pf \in LogicForms, t \in LogicTrip } \cup { <<x, "unot">> : x \in NotCmp } : ea' = e[1] /\ form' = e[2]
       /\ eb' = NoX /\ style' = "print" /\ phase' = 3 /\ UNCHANGED ok
P1 == phase = 0 /\ Scope = "prec" /\ \E o \in BinOps : form' = o /\ phase' = 1 /\ UNCHANGED <<ea, eb, style, ok>>
P2 == /\ phase = 1 /\ Scope = "prec"
      /\ \E pf \in { x \in PrecForms : x[1] = form }, t \in Trip : ea' = MkP(pf, t)
      /\ eb' = NoX /\ style' = "print" /\ phase' = 3 /\ UNCHANGED <<form, ok>>
\* ---- sim scope (run with -simulate): two registers grown by random steps; a register that already fails is not grown further,
\* so every tree evaluates completely except possibly at its root (type-directed sampling)
LeavesR == { I(0), I(1), I(2), I(7), F(1, 2), F(5, 2), S(<<>>), S(<<97>>), Lit(BoolV(TRUE)), Lit(BoolV(FALSE)), Lit(NilV), Id("x") }
EnvX == [St0 EXCEPT !.vars = << [name |-> "x", val |-> IntV(3), init |-> TRUE, depth |-> 0] >>]
Good(e) == ~IsBad(Ev(EnvX, e).v)
R0 == phase = 0 /\ Scope = "sim" /\ \E a \in LeavesR, b \in LeavesR : ea' = a /\ eb' = b /\ phase' = 10 /\ form' = "sim" /\ style' = "print" /\ ok' = TRUE
RGrow == /\ phase = 10 /\ Scope = "sim" /\ ok
         /\ \/ \E o \in BinOps, l \in LeavesR : ea' \in { Bin(o, ea, l), Bin(o, l, ea) } /\ eb' = eb
            \/ \E o \in UnOps : ea' = Un(o, ea) /\ eb' = eb
            \/ ea' = Par(ea) /\ eb' = eb
            \/ ea' = Asg("x", ea) /\ eb' = eb
            \/ \E o \in BinOps : ea' = Bin(o, ea, eb) /\ \E l \in LeavesR : eb' = l
            \/ \E o \in BinOps : ea' = Bin(o, eb, ea) /\ \E l \in LeavesR : eb' = l
            \/ \E o \in BinOps, l \in LeavesR : eb' \in { Bin(o, eb, l), Bin(o, l, eb) } /\ ea' = ea
         /\ ok' = (Good(ea') /\ Good(eb'))
         /\ UNCHANGED <<phase, form, style>>
Next == T1 \/ T2 \/ T3 \/ P1 \/ P2 \/ S1 \/ S2 \/ S3 \/ R0 \/ RGrow \/ L1x
Spec == Init /\ [][Next]_vars

\* ---- the exported case
RECURSIVE Ops(_)
Ops(e) == CASE e[1] \in {"lit", "id"} -> 0 [] e[1] = "par" -> Ops(e[2]) [] e[1] = "asg" -> 1 + Ops(e[3])
            [] e[1] = "un" -> 1 + Ops(e[3]) [] e[1] = "bin" -> 1 + Ops(e[3]) + Ops(e[4])
KindOf(e) == IF e[1] = "lit" THEN e[2].t ELSE "x"
RECURSIVE BlkJ(_)
EntJ(e) == IF e.kind = "val" THEN [k |-> e.k, kind |-> "val", t |-> e.v.t, n |-> e.v.n, d |-> e.v.d, s |-> e.v.s, b |-> <<>>]
           ELSE [k |-> e.k, kind |-> "blk", t |-> "", n |-> 0, d |-> 1, s |-> <<>>, b |-> <<BlkJ(e.b)>>]
BlkJ(b) == [type |-> b.type, name |-> b.name, ents |-> [i \in 1..Len(b.ents) |-> EntJ(b.ents[i])]]
CaseOf(prog, nt) ==
  LET m == Meaning(prog) IN
  [ fam |-> "prog", src |-> RenSeq(prog), class |-> m.class, out |-> m.out, err |-> m.err, warn |-> m.warn,
    result |-> [i \in 1..Len(m.result) |-> BlkJ(m.result[i])],
    bkind |-> m.binding.kind, bblocks |-> [i \in 1..Len(m.binding.blocks) |-> BlkJ(m.binding.blocks[i])], nt |-> nt ]
TheExpr == IF Scope = "types" THEN Mk(form, ea, eb) ELSE IF Scope = "shape" THEN MkS(form, ea, eb) ELSE ea
TheProg == IF Scope = "types" THEN ProgOf(form, ea, eb, style) ELSE << X3, SPrint(TheExpr), SPrint(Id("x")) >>
NonTrivial == Ops(TheExpr) >= 2 \/ (Ops(TheExpr) = 1 /\ Scope = "types" /\ form \in BinOps /\ KindOf(ea) # KindOf(eb))
Emit == (phase = 3 \/ phase = 10) => PrintT(<<"CASE", ToJson(CaseOf(TheProg, NonTrivial))>>)
\* design-level sanity: rendering never produces an empty program and Meaning is total
TypeOK == phase \in {0, 1, 2, 3, 10}
====
