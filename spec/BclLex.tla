---- MODULE BclLex ----
\* L1: tokens of a whole input, by offsets; no window, no backup, no chunks.
EXTENDS BclChars
RTok(k, from, to, msg) == [k |-> k, from |-> from, pos |-> to, msg |-> msg]   \* text = bs[from+1..to]
\* rune at 0-based offset i
R(bs, i) == DecodeAt(bs, i + 1)
B(bs, i) == IF i < Len(bs) THEN bs[i + 1] ELSE -1        \* byte or -1 at EOF (ASCII-class tests only)
RECURSIVE SkipCls(_, _, _)
\* first offset j >= i whose byte is not of class c
InCls(c, b) == CASE c = "digit" -> IsDigit(b) [] c = "hex" -> IsHex(b) [] c = "ident" -> IsIdentPart(b)
SkipCls(bs, i, c) == IF i < Len(bs) /\ InCls(c, bs[i + 1]) THEN SkipCls(bs, i + 1, c) ELSE i
RECURSIVE SkipSpace(_, _)
SkipSpace(bs, i) == LET d == R(bs, i) IN IF d.r # EOFR /\ IsSpace(d.r) THEN SkipSpace(bs, i + d.w) ELSE i
RECURSIVE SkipComment(_, _)
SkipComment(bs, i) == LET d == R(bs, i) IN IF d.r = EOFR \/ IsEol(d.r) THEN i ELSE SkipComment(bs, i + d.w)
RECURSIVE ScanString(_, _)
\* i = offset after the opening quote or later; result [ok, end] (end = offset after closing quote, or failure position)
ScanString(bs, i) ==
  LET d == R(bs, i) IN
  IF d.r = EOFR THEN [ok |-> FALSE, end |-> i]
  ELSE IF d.r = 10 THEN [ok |-> FALSE, end |-> i + 1]
  ELSE IF d.r = 34 THEN [ok |-> TRUE, end |-> i + 1]
  ELSE IF d.r = 92 THEN
       LET e == R(bs, i + 1) IN
       IF e.r = EOFR THEN [ok |-> FALSE, end |-> i + 1]
       ELSE IF e.r = 10 THEN [ok |-> FALSE, end |-> i + 2]
       ELSE ScanString(bs, i + 1 + e.w)
  ELSE ScanString(bs, i + d.w)
Sticky(bs, j) == B(bs, j) = 34 \/ IsAlpha(B(bs, j))
\* width of the rune at j (1 at EOF is irrelevant: used only when the sticky byte exists, which is ASCII)
NumberTok(bs, i) ==
  IF B(bs, i) = 48 /\ B(bs, i + 1) \in {120, 88} THEN
     LET j == SkipCls(bs, i + 2, "hex") IN
     IF B(bs, j) = 46 \/ Sticky(bs, j) THEN RTok("ERR", i, j + 1, "invalid syntax") ELSE RTok("INT", i, j, "")
  ELSE
     LET j == SkipCls(bs, i, "digit") c == B(bs, j) IN
     IF c \notin {46, 101, 69} THEN
        (IF Sticky(bs, j) THEN RTok("ERR", i, j + 1, "invalid syntax") ELSE RTok("INT", i, j, ""))
     ELSE
        LET k == IF c = 46 THEN SkipCls(bs, j + 1, "digit") ELSE j IN
        IF c = 46 /\ k = j + 1 THEN RTok("ERR", i, j + 1, "need more digits after a dot")
        ELSE IF B(bs, k) \in {101, 69} THEN
               LET m == IF B(bs, k + 1) \in {43, 45} THEN k + 2 ELSE k + 1
                   n == SkipCls(bs, m, "digit")
               IN IF n = m THEN RTok("ERR", i, m, "need more digits for an exponent")
                  ELSE IF Sticky(bs, n) THEN RTok("ERR", i, n + 1, "invalid syntax") ELSE RTok("FLOAT", i, n, "")
        ELSE IF Sticky(bs, k) THEN RTok("ERR", i, k + 1, "invalid syntax") ELSE RTok("FLOAT", i, k, "")
KeywordOf(bs) ==
  CASE bs = <<118, 97, 114>> -> "VAR" [] bs = <<100, 101, 102>> -> "DEF" [] bs = <<101, 118, 97, 108>> -> "EVAL"
    [] bs = <<112, 114, 105, 110, 116>> -> "PRINT" [] bs = <<98, 105, 110, 100>> -> "BIND"
    [] bs = <<116, 114, 117, 101>> -> "TRUE" [] bs = <<102, 97, 108, 115, 101>> -> "FALSE" [] bs = <<110, 105, 108>> -> "NIL"
    [] bs = <<110, 111, 116>> -> "NOT" [] bs = <<97, 110, 100>> -> "AND" [] bs = <<111, 114>> -> "OR" [] OTHER -> "IDENT"
One(b) == CASE b = 61 -> "EQ" [] b = 123 -> "LCURLY" [] b = 125 -> "RCURLY" [] b = 40 -> "LPAREN" [] b = 41 -> "RPAREN"
            [] b = 60 -> "LT" [] b = 62 -> "GT" [] b = 43 -> "PLUS" [] b = 45 -> "MINUS" [] b = 42 -> "STAR"
            [] b = 47 -> "SLASH" [] b = 58 -> "COLON" [] b = 59 -> "SEMICOLON" [] OTHER -> ""
Two(b, c) == CASE b = 61 /\ c = 61 -> "EE" [] b = 33 /\ c = 61 -> "BE" [] b = 60 /\ c = 61 -> "LE"
               [] b = 62 /\ c = 61 -> "GE" [] b = 45 /\ c = 62 -> "ARROW" [] OTHER -> ""
\* the token starting at offset i (i is not layout)
TokenAt(bs, i) ==
  LET d == R(bs, i) b == B(bs, i) IN
  IF d.r = EOFR THEN RTok("EOF", i, i, "")
  ELSE IF Two(b, B(bs, i + 1)) # "" THEN RTok(Two(b, B(bs, i + 1)), i, i + 2, "")
  ELSE IF b = 33 THEN RTok("ERR", i, i + 1, "expected char to start token")
  ELSE IF One(b) # "" THEN RTok(One(b), i, i + 1, "")
  ELSE IF b = 34 THEN
       LET q == ScanString(bs, i + 1) IN
       IF ~q.ok THEN RTok("ERR", i, q.end, "unterminated quoted string")
       ELSE IF IsAlnum(B(bs, q.end)) THEN RTok("ERR", i, q.end + 1, "invalid syntax") ELSE RTok("STR", i, q.end, "")
  ELSE IF IsIdentStart(d.r) THEN
       LET j == SkipCls(bs, i, "ident") IN
       IF B(bs, j) = 34 THEN RTok("ERR", i, j + 1, "invalid syntax") ELSE RTok(KeywordOf(SubSeq(bs, i + 1, j)), i, j, "")
  ELSE IF IsDigit(d.r) THEN NumberTok(bs, i)
  ELSE RTok("ERR", i, i + d.w, "unknown char")
RECURSIVE RefFrom(_, _, _)
RefFrom(bs, i, acc) ==
  LET d == R(bs, i) IN
  IF d.r # EOFR /\ IsSpace(d.r) THEN RefFrom(bs, SkipSpace(bs, i), acc)
  ELSE IF d.r = 35 THEN RefFrom(bs, SkipComment(bs, i), acc)
  ELSE LET t == TokenAt(bs, i) IN
       IF t.k = "EOF" THEN Append(acc, t)
       ELSE IF t.k = "ERR" THEN acc \o << t, RTok("FAIL", t.pos, t.pos, "") >>
       ELSE RefFrom(bs, t.pos, Append(acc, t))
RefTokens(bs) == RefFrom(bs, 0, <<>>)
RefNewlines(bs) == LET RECURSIVE Go(_, _)
                       Go(i, acc) == IF i > Len(bs) THEN acc ELSE Go(i + 1, IF bs[i] = 10 THEN Append(acc, i - 1) ELSE acc)
                   IN Go(1, <<>>)
====
