---- MODULE Gen_Chunks ----
\* GEN front end for C07: (input, delivery) cases. The oracle of C07 is an equality between two runs of the real code
\* (ParseFile under the delivery vs Parse on the whole input); the specification chooses the inputs and deliveries so that every
\* boundary class is hit (inside a token, inside a multi-byte rune, between the two characters of an operator or escape, zero-byte
\* reads, data together with EOF, the real 4096-byte page at every offset of the lexemes), and the L2 lexer machine BclLexer must
\* itself agree with the L1 lexer BclLex on each of them (invariant Agree).
EXTENDS BclLexer, FiniteSets, Json
Ref == INSTANCE BclLex
CONSTANTS Scope,   \* "cuts" | "page"
          NLex     \* lexemes per input (2 quick, 3 thorough for cuts)
Lexemes == { <<112, 114, 105, 110, 116>>, <<120, 49>>, <<52, 50>>, <<48, 120, 49, 70>>, <<49, 46, 53>>, <<50, 101, 45, 49>>,
             <<34, 97, 92, 34, 98, 34>>, <<34, 195, 169, 34>>, <<61, 61>>, <<33, 61>>, <<60, 61>>, <<45, 62>>, <<61>>, <<45>>,
             <<32>>, <<10>>, <<13, 10>>, <<194, 160>>, <<194, 133>>, <<35, 99, 195, 169, 10>>, <<35, 99>>, <<59>>, <<40>>,
             <<49, 97>>, <<34, 97>>, <<33>>, <<226, 130, 172>>, <<49, 46>>, <<118, 97, 114>>, <<34, 92, 120, 52, 49, 34>>,
             <<35, 226, 130, 172, 13>>, <<123>>, <<125>>,
             <<35, 99, 13, 52, 50, 10>>,
             <<34, 97, 92>>,
             <<240, 159, 152, 128>>, <<34, 240, 159, 152, 128, 34>>,
             <<239, 187, 191, 120>>,        \* U+FEFF and a name: as the first lexeme a byte-order mark at the start of the input (no token, no layout)
             <<100, 101, 102, 32, 98, 123, 102, 61, 49, 125>> }     \* a whole closed block, def b{f=1}: what follows it (a lexical failure, say) must not reach back into it     \* a four-byte character (U+1F600) where a token should start, and inside a string                              \* an unterminated string ending in a backslash: the escape takes the next character, a line end too                  \* a comment ended by a bare CR with a token before the next LF
RECURSIVE Split(_, _, _)
Split(bs, cuts, from) ==
  IF cuts = {} THEN << SubSeq(bs, from + 1, Len(bs)) >>
  ELSE LET c == CHOOSE x \in cuts : \A y \in cuts : x <= y IN << SubSeq(bs, from + 1, c) >> \o Split(bs, cuts \ {c}, c)
VARIABLES bs, cuts, phase, zero, eofdata, k
vars == <<bs, cuts, phase, zero, eofdata, k>>
Init == bs = <<>> /\ cuts = {} /\ phase = 0 /\ zero = 0 /\ eofdata = FALSE /\ k = 0
PickLex == /\ phase < NLex /\ phase' = phase + 1
           /\ \E a \in Lexemes : bs' = bs \o a \/ (bs # <<>> /\ bs' = bs \o <<32>> \o a)
           /\ UNCHANGED <<cuts, zero, eofdata, k>>
\* cuts scope: every set of <= 2 cut points; a zero-byte read before chunk `zero` (0 = none); the last chunk with or without EOF
PickCuts == /\ Scope = "cuts" /\ phase = NLex /\ phase' = 100
            /\ \E c \in { s \in SUBSET (1..(Len(bs) - 1)) : Cardinality(s) <= 2 } : cuts' = c
            /\ \E ze \in {<<0, FALSE>>, <<0, TRUE>>, <<1, FALSE>>, <<2, FALSE>>, <<2, TRUE>>} : zero' = ze[1] /\ eofdata' = ze[2]
            /\ UNCHANGED <<bs, k>>
\* page scope: the input is preceded by a comment line of such a length that the boundary between the first and the second
\* 4096-byte read falls k bytes into the lexemes, for every k
PickPage == /\ Scope = "page" /\ phase = NLex /\ phase' = 100
            /\ \E kk \in 0..Len(bs) : k' = kk
            /\ UNCHANGED <<bs, cuts, zero, eofdata>>
Next == PickLex \/ PickCuts \/ PickPage
Spec == Init /\ [][Next]_vars
RECURSIVE SortedSeq(_)
SortedSeq(S) == IF S = {} THEN <<>> ELSE LET m == CHOOSE x \in S : \A y \in S : x <= y IN <<m>> \o SortedSeq(S \ {m})
RuneStart(i) == i = 0 \/ i >= Len(bs) \/ ~IsCont(bs[i + 1])
Chunks0 == Split(bs, cuts, 0)
\* the chunk list the lexer sees (zero-byte reads are ignored by the required pipeline, so they do not appear here)
Project(toks) == [i \in 1..Len(toks) |-> [k |-> toks[i].k, pos |-> toks[i].pos, msg |-> toks[i].msg, text |-> toks[i].text]]
RefProject(b, toks) == [i \in 1..Len(toks) |-> [k |-> toks[i].k, pos |-> toks[i].pos, msg |-> toks[i].msg,
                          text |-> IF toks[i].k \in {"ERR", "FAIL", "EOF"} THEN <<>> ELSE SubSeq(b, toks[i].from + 1, toks[i].pos)]]
\* L2 == L1 on this very case (with an interposed empty chunk where a zero-byte read would have been)
WithZero == IF zero = 0 \/ zero > Len(Chunks0) THEN Chunks0
            ELSE SubSeq(Chunks0, 1, zero - 1) \o << <<>> >> \o SubSeq(Chunks0, zero, Len(Chunks0))
Agree == (phase = 100 /\ Scope = "cuts") => Project(LexChunks(WithZero).out) = RefProject(bs, Ref!RefTokens(bs))
EmitCase == phase = 100 =>
  PrintT(<<"CASE", ToJson([fam |-> "chunks", scope |-> Scope, src |-> bs, cuts |-> SortedSeq(cuts), zero |-> zero, eofdata |-> eofdata, k |-> k,
                            ntok |-> Len(Ref!RefTokens(bs)),
                            splitsRune |-> (\E c \in cuts : ~RuneStart(c)) \/ (Scope = "page" /\ ~RuneStart(k)),
                            nt |-> (cuts # {} \/ Scope = "page")])>>)
====
