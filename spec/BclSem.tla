---- MODULE BclSem ----
\* L1: statements, scopes, blocks, bind. Meaning of a program = [class, out, result, binding, warn, err].
EXTENDS BclValues, FiniteSets
Lit(v) == <<"lit", v>>
Id(n) == <<"id", n>>
Asg(n, e) == <<"asg", n, e>>
Un(o, e) == <<"un", o, e>>
Bin(o, a, b) == <<"bin", o, a, b>>
Par(e) == <<"par", e>>
NoE == Lit(NilV)
SVar(n, has, e) == <<"var", n, has, e>>
SPrint(e) == <<"print", "", FALSE, e>>
SEval(e) == <<"eval", "", FALSE, e>>
SExpr(e) == <<"expr", "", FALSE, e>>
SDef(ty, nm, body) == <<"def", ty, nm, body>>
SBind(ty, sel, tgt) == <<"bind", ty, sel, tgt>>

NameBytes(n) == CASE n = "a" -> <<97>>
                  [] n = "b" -> <<98>>
                  [] n = "c" -> <<99>>
                  [] n = "d" -> <<100>>
                  [] n = "e" -> <<101>>
                  [] n = "f" -> <<102>>
                  [] n = "g" -> <<103>>
                  [] n = "h" -> <<104>>
                  [] n = "i" -> <<105>>
                  [] n = "j" -> <<106>>
                  [] n = "k" -> <<107>>
                  [] n = "l" -> <<108>>
                  [] n = "m" -> <<109>>
                  [] n = "n" -> <<110>>
                  [] n = "o" -> <<111>>
                  [] n = "p" -> <<112>>
                  [] n = "q" -> <<113>>
                  [] n = "r" -> <<114>>
                  [] n = "s" -> <<115>>
                  [] n = "t" -> <<116>>
                  [] n = "u" -> <<117>>
                  [] n = "v" -> <<118>>
                  [] n = "w" -> <<119>>
                  [] n = "Q" -> <<113, 34, 92, 9, 195, 169>>      \* a block name that needs escapes in its literal: q " \ TAB e-acute
                  [] n = "H" -> <<65>>                            \* the block name A, written \x41
                  [] n = "x" -> <<120>>
                  [] n = "y" -> <<121>>
                  [] n = "z" -> <<122>>
                  [] n = "v0" -> <<118, 48>>
                  [] n = "v1" -> <<118, 49>>
                  [] n = "v2" -> <<118, 50>>
                  [] n = "v3" -> <<118, 51>>
                  [] n = "v4" -> <<118, 52>>
                  [] n = "v5" -> <<118, 53>>
                  [] n = "v6" -> <<118, 54>>
                  [] n = "v7" -> <<118, 55>>
                  [] n = "v8" -> <<118, 56>>
                  [] n = "v9" -> <<118, 57>>
                  [] n = "f0" -> <<102, 48>>
                  [] n = "f1" -> <<102, 49>>
                  [] n = "f2" -> <<102, 50>>
                  [] n = "f3" -> <<102, 51>>
                  [] n = "f4" -> <<102, 52>>
                  [] n = "f5" -> <<102, 53>>
                  [] n = "f6" -> <<102, 54>>
                  [] n = "f7" -> <<102, 55>>
                  [] n = "f8" -> <<102, 56>>
                  [] n = "f9" -> <<102, 57>>
                  [] n = "TYPE" -> <<84, 89, 80, 69>>
                  [] n = "NAME" -> <<78, 65, 77, 69>>
                  [] n = "struct" -> <<115, 116, 114, 117, 99, 116>>
                  [] n = "slice" -> <<115, 108, 105, 99, 101>>
                  [] n = "first" -> <<102, 105, 114, 115, 116>>
                  [] n = "last" -> <<108, 97, 115, 116>>
                  [] n = "all" -> <<97, 108, 108>>
                  [] n = "any" -> <<97, 110, 121>>
                  [] n = "map" -> <<109, 97, 112>>
                  [] n = "foo" -> <<102, 111, 111>>
                  [] n = "bar" -> <<98, 97, 114>>
                  [] n = "foo_bar" -> <<102, 111, 111, 95, 98, 97, 114>>
                  [] n = "FooBar" -> <<70, 111, 111, 66, 97, 114>>
                  [] n = "x1" -> <<120, 49>>
                  [] n = "_x" -> <<95, 120>>
                  [] n = "X" -> <<88>>
                  [] n = "Name" -> <<78, 97, 109, 101>>
                  [] n = "name" -> <<110, 97, 109, 101>>
                  [] n = "" -> <<>>

\* ---- machine-independent state
EmptyBlk == [type |-> "", name |-> "", ents |-> <<>>]
Ent(k, kind, v, b) == [k |-> k, kind |-> kind, v |-> v, b |-> b]
NoBinding == [kind |-> "none", blocks |-> <<>>]
St0 == [vars |-> <<>>, blocks |-> <<>>, result |-> <<>>, out |-> <<>>, binding |-> NoBinding, warn |-> 0, err |-> "", ood |-> FALSE]
RECURSIVE FindVar(_, _, _)
FindVar(vars, n, i) == IF i = 0 THEN 0 ELSE IF vars[i].name = n /\ vars[i].init THEN i ELSE FindVar(vars, n, i - 1)
RECURSIVE FindEnt(_, _, _)
FindEnt(ents, k, i) == IF i = 0 THEN 0 ELSE IF ents[i].k = k THEN i ELSE FindEnt(ents, k, i - 1)
RECURSIVE FindField(_, _, _)
FindField(blocks, k, i) == IF i = 0 THEN <<0, 0>> ELSE LET j == FindEnt(blocks[i].ents, k, Len(blocks[i].ents)) IN
                           IF j > 0 THEN <<i, j>> ELSE FindField(blocks, k, i - 1)
R(st, v) == [st |-> st, v |-> v]
Lookup(st, n) ==
  LET i == FindVar(st.vars, n, Len(st.vars)) IN
  IF i > 0 THEN st.vars[i].val
  ELSE IF st.blocks = <<>> THEN ErrV("undefined variable")
  ELSE IF n = "TYPE" THEN StrV(NameBytes(st.blocks[Len(st.blocks)].type))
  ELSE IF n = "NAME" THEN StrV(NameBytes(st.blocks[Len(st.blocks)].name))
  ELSE LET p == FindField(st.blocks, n, Len(st.blocks)) IN
       IF p[1] = 0 THEN ErrV("identifier '" \o n \o "' not resolved as var or field")
       ELSE IF st.blocks[p[1]].ents[p[2]].kind = "blk" THEN OodV("block-as-value")
       ELSE st.blocks[p[1]].ents[p[2]].v
Assign(st, n, v) ==
  LET i == FindVar(st.vars, n, Len(st.vars)) IN
  IF i > 0 THEN [st EXCEPT !.vars[i].val = v]
  ELSE LET bi == Len(st.blocks)  j == FindEnt(st.blocks[bi].ents, n, Len(st.blocks[bi].ents)) IN
       IF j > 0 THEN [st EXCEPT !.blocks[bi].ents[j] = Ent(n, "val", v, EmptyBlk)]
       ELSE [st EXCEPT !.blocks[bi].ents = Append(@, Ent(n, "val", v, EmptyBlk))]
Real(op) == CASE op = "+" -> "ADD" [] op = "-" -> "SUB" [] op = "*" -> "MUL" [] op = "/" -> "DIV"
              [] op \in {"==", "!="} -> "EQ" [] op \in {"<", ">="} -> "LT" [] op \in {">", "<="} -> "GT"
Negated(op) == op \in {"!=", ">=", "<="}
RECURSIVE Ev(_, _)
Ev(st, e) ==
  CASE e[1] = "lit" -> R(st, e[2])
    [] e[1] = "par" -> Ev(st, e[2])
    [] e[1] = "id" -> R(st, Lookup(st, e[2]))
    [] e[1] = "asg" -> (LET r == Ev(st, e[3]) IN
                        IF IsBad(r.v) THEN r
                        ELSE IF FindVar(r.st.vars, e[2], Len(r.st.vars)) = 0 /\ r.st.blocks = <<>> THEN R(r.st, ErrV("undefined variable"))
                        ELSE R(Assign(r.st, e[2], r.v), r.v))
    [] e[1] = "un" -> (LET r == Ev(st, e[3]) IN
                       IF IsBad(r.v) THEN r
                       ELSE R(r.st, CASE e[2] = "not" -> Not(r.v) [] e[2] = "-" -> Neg(r.v) [] e[2] = "+" -> UnPlus(r.v)))
    [] e[1] = "bin" ->
         (LET a == Ev(st, e[3]) IN
          IF IsBad(a.v) THEN a
          ELSE IF e[2] = "and" THEN (IF Falsey(a.v) THEN a ELSE Ev(a.st, e[4]))
          ELSE IF e[2] = "or" THEN (IF Falsey(a.v) THEN Ev(a.st, e[4]) ELSE a)
          ELSE LET b == Ev(a.st, e[4]) IN
               IF IsBad(b.v) THEN b
               ELSE LET x == BinOp(Real(e[2]), a.v, b.v) IN
                    R(b.st, IF IsBad(x) \/ ~Negated(e[2]) THEN x ELSE Not(x)))
Fail(st, v) == IF v.t = "ood" THEN [st EXCEPT !.ood = TRUE] ELSE [st EXCEPT !.err = v.e]
Halted(st) == st.err # "" \/ st.ood
KeyOf(b) == IF b.name = "" THEN b.type ELSE b.type \o "." \o b.name
SelectBlocks(res, ty) == SelectSeq(res, LAMBDA b : b.type = ty)
DecS(n) == CASE n = 0 -> "0" [] n = 1 -> "1" [] n = 2 -> "2" [] n = 3 -> "3" [] n = 4 -> "4" [] OTHER -> "many"
RECURSIVE ExecSeq(_, _)
Exec(st, s) ==
  IF Halted(st) THEN st
  ELSE CASE s[1] = "var" ->
              (IF s[3] THEN LET r == Ev(st, s[4]) IN
                            IF IsBad(r.v) THEN Fail(r.st, r.v)
                            ELSE [r.st EXCEPT !.vars = Append(@, [name |-> s[2], val |-> r.v, init |-> TRUE, depth |-> Len(st.blocks)])]
               ELSE [st EXCEPT !.vars = Append(@, [name |-> s[2], val |-> NilV, init |-> TRUE, depth |-> Len(st.blocks)])])
         [] s[1] = "print" -> (LET r == Ev(st, s[4]) IN
                               IF IsBad(r.v) THEN Fail(r.st, r.v)
                               ELSE LET p == PrintOf(r.v) IN IF ~p.ok THEN [r.st EXCEPT !.ood = TRUE] ELSE [r.st EXCEPT !.out = Append(@, p.s)])
         [] s[1] \in {"eval", "expr"} -> (LET r == Ev(st, s[4]) IN IF IsBad(r.v) THEN Fail(r.st, r.v) ELSE r.st)
         [] s[1] = "def" ->
              (LET s1 == [st EXCEPT !.blocks = Append(@, [type |-> s[2], name |-> s[3], ents |-> <<>>])]
                   s2 == ExecSeq(s1, s[4])
               IN IF Halted(s2) THEN s2
                  ELSE LET d == Len(st.blocks)
                           b == s2.blocks[Len(s2.blocks)]
                           vs == SelectSeq(s2.vars, LAMBDA v : v.depth <= d)
                           s3 == [s2 EXCEPT !.vars = vs, !.blocks = SubSeq(@, 1, d)]
                       IN IF d = 0 THEN [s3 EXCEPT !.result = Append(@, b)]
                          ELSE IF FindEnt(s3.blocks[d].ents, KeyOf(b), Len(s3.blocks[d].ents)) > 0
                               THEN [s3 EXCEPT !.err = "child " \o KeyOf(b) \o " duplicate at parent"]
                               ELSE [s3 EXCEPT !.blocks[d].ents = Append(@, Ent(KeyOf(b), "blk", NilV, b))])
         [] s[1] = "bind" ->
              (LET s1 == IF st.binding.kind # "none" THEN [st EXCEPT !.warn = @ + 1] ELSE st
                   c == SelectBlocks(st.result, s[2])
               IN IF c = <<>> THEN [s1 EXCEPT !.err = "bind: no blocks of type " \o s[2]]
                  ELSE IF s[3] \in {"one", "none"} /\ Len(c) # 1
                       THEN [s1 EXCEPT !.err = "bind: found " \o DecS(Len(c)) \o " blocks of type " \o s[2] \o " but expected just 1"]
                  ELSE [s1 EXCEPT !.binding = [kind |-> s[4],
                          blocks |-> CASE s[3] \in {"one", "none", "first"} -> <<c[1]>> [] s[3] = "last" -> <<c[Len(c)]>> [] s[3] = "all" -> c]])
ExecSeq(st, ss) == IF ss = <<>> THEN st ELSE ExecSeq(Exec(st, Head(ss)), Tail(ss))

\* ---- static rules: scopes of variables only
RECURSIVE IdsOk(_, _, _)
Resolves(vars, n) == \E i \in 1..Len(vars) : vars[i] = n
IdsOk(vars, depth, e) ==
  CASE e[1] = "lit" -> TRUE
    [] e[1] = "par" -> IdsOk(vars, depth, e[2])
    [] e[1] = "id" -> depth > 0 \/ Resolves(vars, e[2])
    [] e[1] = "asg" -> (depth > 0 \/ Resolves(vars, e[2])) /\ IdsOk(vars, depth, e[3])
    [] e[1] = "un" -> IdsOk(vars, depth, e[3])
    [] e[1] = "bin" -> IdsOk(vars, depth, e[3]) /\ IdsOk(vars, depth, e[4])
\* scope = sequence of [names: Seq(name)] per depth; returns [ok, scopes]
RECURSIVE StaticSeq(_, _, _)
AllVars(scopes) == LET RECURSIVE Cat(_) Cat(ss) == IF ss = <<>> THEN <<>> ELSE Head(ss) \o Cat(Tail(ss)) IN Cat(scopes)
StaticStmt(scopes, s) ==
  LET depth == Len(scopes) - 1  vars == AllVars(scopes) IN
  CASE s[1] = "var" -> [ok |-> (~s[3] \/ IdsOk(vars, depth, s[4])) /\ ~(\E i \in 1..Len(scopes[Len(scopes)]) : scopes[Len(scopes)][i] = s[2]),
                        scopes |-> [scopes EXCEPT ![Len(scopes)] = Append(@, s[2])]]
    [] s[1] \in {"print", "eval", "expr"} -> [ok |-> IdsOk(vars, depth, s[4]), scopes |-> scopes]
    [] s[1] = "def" -> [ok |-> StaticSeq(Append(scopes, <<>>), s[4], TRUE), scopes |-> scopes]
    [] s[1] = "bind" -> [ok |-> s[3] \in {"none", "one", "first", "last", "all"} /\ s[4] \in {"struct", "slice"} /\ ~(s[3] = "all" /\ s[4] = "struct"), scopes |-> scopes]
StaticSeq(scopes, ss, acc) ==
  IF ss = <<>> THEN acc ELSE LET r == StaticStmt(scopes, Head(ss)) IN StaticSeq(r.scopes, Tail(ss), acc /\ r.ok)
StaticOk(prog) == StaticSeq(<< <<>> >>, prog, TRUE)

Meaning(prog) ==
  IF ~StaticOk(prog) THEN [class |-> "compile-error", out |-> <<>>, result |-> <<>>, binding |-> NoBinding, warn |-> 0, err |-> ""]
  ELSE LET st == ExecSeq(St0, prog) IN
       [class |-> IF st.ood THEN "ood" ELSE IF st.err # "" THEN "runtime-error" ELSE "ok",
        out |-> st.out, result |-> st.result, binding |-> st.binding, warn |-> st.warn, err |-> st.err]

\* ---- rendering
Prec(o) == CASE o = "or" -> 2 [] o = "and" -> 3 [] o \in {"==", "!="} -> 5 [] o \in {"<", "<=", ">", ">="} -> 6
             [] o \in {"+", "-"} -> 7 [] o \in {"*", "/"} -> 8
RightAssoc(o) == o \in {"and", "or"}
Level(e) == CASE e[1] \in {"lit", "id", "par"} -> 11 [] e[1] = "bin" -> Prec(e[2])
              [] e[1] = "un" -> (IF e[2] = "not" THEN 4 ELSE 9) [] e[1] = "asg" -> 1
OpBytes(o) == CASE o = "or" -> <<111, 114>> [] o = "and" -> <<97, 110, 100>> [] o = "not" -> <<110, 111, 116>>
                [] o = "==" -> <<61, 61>> [] o = "!=" -> <<33, 61>> [] o = "<" -> <<60>> [] o = "<=" -> <<60, 61>>
                [] o = ">" -> <<62>> [] o = ">=" -> <<62, 61>> [] o = "+" -> <<43>> [] o = "-" -> <<45>>
                [] o = "*" -> <<42>> [] o = "/" -> <<47>>
\* ---- literal spellings. Lit(v) is <<"lit", v>>; LitS(v, sp) = <<"lit", v, sp>> selects an alternative spelling
LitS(v, sp) == <<"lit", v, sp>>
HexD == <<48, 49, 50, 51, 52, 53, 54, 55, 56, 57, 97, 98, 99, 100, 101, 102>>
RECURSIVE BaseDigits(_, _)
BaseDigits(n, base) == IF n < base THEN <<HexD[n + 1]>> ELSE Append(BaseDigits(n \div base, base), HexD[(n % base) + 1])
Hex2(b) == <<HexD[(b \div 16) + 1], HexD[(b % 16) + 1]>>
Oct3(b) == <<48 + (b \div 64), 48 + ((b \div 8) % 8), 48 + (b % 8)>>
RECURSIVE EscPlain(_)
EscPlain(s) == IF s = <<>> THEN <<>> ELSE
               (CASE Head(s) = 34 -> <<92, 34>> [] Head(s) = 92 -> <<92, 92>> [] Head(s) = 10 -> <<92, 110>> [] OTHER -> <<Head(s)>>) \o EscPlain(Tail(s))
RECURSIVE EscAll(_, _)
EscAll(s, sp) == IF s = <<>> THEN <<>> ELSE
               (CASE sp = "hex" -> <<92, 120>> \o Hex2(Head(s))
                  [] sp = "uni" -> (IF Head(s) < 128 THEN <<92, 117, 48, 48>> \o Hex2(Head(s)) ELSE <<Head(s)>>)
                  [] sp = "oct" -> <<92>> \o Oct3(Head(s))) \o EscAll(Tail(s), sp)
\* digits of a dyadic without the dot, and the number of fraction digits
FloatExp(v, E) == LET a == Abs(v.n) ip == a \div v.d fr == a % v.d fd == FracDigits(fr, v.d) IN
                  (IF v.n < 0 THEN <<45>> ELSE <<>>) \o Digits(ip) \o fd \o
                  (IF E = "exp" THEN <<101, 45>> \o Digits(Len(fd)) ELSE IF fd = <<>> THEN <<69, 43, 48>> ELSE <<69, 45>> \o Digits(Len(fd)))
LitBytes(v) == CASE v.t = "int" -> Decimal(v.n)
                 [] v.t = "float" -> (IF v.d = 1 THEN Decimal(v.n) \o <<46, 48>> ELSE FloatPlain(v))
                 [] v.t = "str" -> <<34>> \o EscPlain(v.s) \o <<34>>
                 [] v.t = "bool" -> Bytes(IF v.n = 1 THEN "true" ELSE "false")
                 [] v.t = "nil" -> <<110, 105, 108>>
LitSpell(e) == IF Len(e) = 2 THEN LitBytes(e[2])
               ELSE LET v == e[2] sp == e[3] IN
                    CASE v.t = "int" /\ sp = "hex" -> <<48, 120>> \o BaseDigits(v.n, 16)
                      [] v.t = "int" /\ sp = "HEX" -> <<48, 88>> \o BaseDigits(v.n, 16)
                      [] v.t = "int" /\ sp = "oct" -> <<48>> \o BaseDigits(v.n, 8)
                      [] v.t = "float" /\ sp \in {"exp", "EXP"} -> FloatExp(v, sp)
                      [] v.t = "str" -> <<34>> \o EscAll(v.s, sp) \o <<34>>
                      [] OTHER -> LitBytes(v)
SP == <<32>>
RECURSIVE Ren(_, _)
Ren(e, p) ==
  LET body == CASE e[1] = "lit" -> LitSpell(e)
                [] e[1] = "id" -> NameBytes(e[2])
                [] e[1] = "par" -> <<40>> \o Ren(e[2], 1) \o <<41>>
                [] e[1] = "asg" -> NameBytes(e[2]) \o SP \o <<61>> \o SP \o Ren(e[3], 1)
                [] e[1] = "un" -> OpBytes(e[2]) \o SP \o Ren(e[3], IF e[2] = "not" THEN 4 ELSE 9)
                [] e[1] = "bin" -> (LET q == Prec(e[2]) IN
                                    Ren(e[3], IF RightAssoc(e[2]) THEN q + 1 ELSE q) \o SP \o OpBytes(e[2]) \o SP
                                    \o Ren(e[4], IF RightAssoc(e[2]) THEN q ELSE q + 1))
  IN IF Level(e) < p THEN <<40>> \o body \o <<41>> ELSE body
KwBytes(k) == CASE k = "var" -> <<118, 97, 114>> [] k = "print" -> <<112, 114, 105, 110, 116>> [] k = "eval" -> <<101, 118, 97, 108>>
                [] k = "def" -> <<100, 101, 102>> [] k = "bind" -> <<98, 105, 110, 100>>
SelBytes(s) == CASE s = "one" -> <<58, 49>> [] s = "first" -> <<58, 102, 105, 114, 115, 116>> [] s = "last" -> <<58, 108, 97, 115, 116>>
                 [] s = "all" -> <<58, 97, 108, 108>> [] s = "none" -> <<>> [] s = "bogus" -> <<58, 97, 110, 121>>
TgtBytes(t) == CASE t = "struct" -> <<115, 116, 114, 117, 99, 116>> [] t = "slice" -> <<115, 108, 105, 99, 101>> [] t = "bogus" -> <<109, 97, 112>>
\* the literal of a block name: escapes where needed (the value is NameBytes)
DefNameSpell(nm) == IF nm = "H" THEN <<92, 120, 52, 49>> ELSE EscPlain(NameBytes(nm))
RECURSIVE RenSeq(_)
RenStmt(s) ==
  CASE s[1] = "var" -> KwBytes("var") \o SP \o NameBytes(s[2]) \o (IF s[3] THEN SP \o <<61>> \o SP \o Ren(s[4], 1) ELSE <<>>) \o <<59, 10>>
    [] s[1] = "print" -> KwBytes("print") \o SP \o Ren(s[4], 1) \o <<59, 10>>
    [] s[1] = "eval" -> KwBytes("eval") \o SP \o Ren(s[4], 1) \o <<59, 10>>
    [] s[1] = "expr" -> Ren(s[4], 1) \o <<59, 10>>
    [] s[1] = "def" -> KwBytes("def") \o SP \o NameBytes(s[2]) \o (IF s[3] = "" THEN <<>> ELSE SP \o <<34>> \o DefNameSpell(s[3]) \o <<34>>)
                       \o SP \o <<123, 10>> \o RenSeq(s[4]) \o <<125, 10>>
    [] s[1] = "bind" -> KwBytes("bind") \o SP \o NameBytes(s[2]) \o SelBytes(s[3]) \o SP \o <<45, 62>> \o SP \o TgtBytes(s[4]) \o <<10>>
RenSeq(ss) == IF ss = <<>> THEN <<>> ELSE RenStmt(Head(ss)) \o RenSeq(Tail(ss))
====
