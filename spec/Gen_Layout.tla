---- MODULE Gen_Layout ----
\* MC + GEN front end for C20: layout never changes meaning.
\*  "render"   programs of the Gen_Prog families re-rendered: (a) every token boundary gets a separator drawn from a pool of
\*             whitespace runs (SP TAB VT FF CR LF U+0085 U+00A0), comments with arbitrary content (quotes, keywords, ';', '(',
\*             non-ASCII) ended by LF or CR, or nothing at all where the L1 lexer still separates the two tokens; (b) the optional
\*             ';' after a statement is kept or dropped (dropped only where the next statement does not start with '+' or '-',
\*             which would continue the expression); (c) redundant parentheses are put around whole sub-expressions.
\*             MC invariant SameTokens: the L1 lexer yields the same token kinds and texts for the re-rendering.
\*             GEN: (A, B) pairs; the real compiler must produce the same code and constants and the same run outcome.
\*  "strings"  print "<body>" for every body of <= 3 units over {# ; ( ) SP TAB VT FF CR NEL NBSP \" \\ a}: the value is the body.
\*  "comment"  print 1 #c<X>print 2 for X over a byte pool: the comment ends at CR or LF and nowhere else.
EXTENDS BclSem, Json
Lx == INSTANCE BclLex
CONSTANTS Scope, MaxItems
L1 == Lit(IntV(1))
L2 == Lit(IntV(2))
None == <<"none">>
Opt(s) == IF s = None THEN <<>> ELSE <<s>>

\* ---- separators
Seps == << <<32>>, <<9>>, <<11>>, <<12>>, <<13>>, <<10>>, <<194, 133>>, <<194, 160>>, <<32, 32, 10, 9>>, <<13, 10>>,
           <<35, 99, 10>>, <<35, 32, 34, 120, 32, 118, 97, 114, 32, 59, 40, 10>>, <<35, 195, 169, 13>>, <<32, 35, 35, 10, 32>>, <<>> >>
ToksOf(bs) == LET ts == Lx!RefTokens(bs) IN
              [i \in 1..Len(ts) |-> [k |-> ts[i].k, text |-> IF ts[i].k \in {"ERR", "FAIL", "EOF"} THEN <<>> ELSE SubSeq(bs, ts[i].from + 1, ts[i].pos)]]
\* may a and b be written without anything between them? decided by the L1 lexer itself
Glue(a, b) == LET t == ToksOf(a.text \o b.text) IN Len(t) = 3 /\ t[1] = a /\ t[2] = b
RECURSIVE Join(_, _, _)
Join(ts, i, rot) ==
  IF i > Len(ts) THEN <<>>
  ELSE IF ts[i].k = "EOF" THEN Seps[((i + rot) % (Len(Seps) - 1)) + 1]          \* trailing layout, never the empty one
  ELSE LET s0 == Seps[((i * 7 + rot) % Len(Seps)) + 1]
           s == IF s0 = <<>> /\ (i = Len(ts) \/ ts[i + 1].k = "EOF" \/ ~Glue(ts[i], ts[i + 1])) THEN <<32>> ELSE s0
       IN ts[i].text \o s \o Join(ts, i + 1, rot)

\* ---- AST-level variation: redundant parentheses, optional semicolons
RECURSIVE Wrap(_, _)
Wrap(e, mode) ==
  CASE e[1] \in {"lit", "id"} -> (IF mode = 2 THEN Par(e) ELSE e)
    [] mode = 3 -> e
    [] e[1] = "par" -> Par(Wrap(e[2], mode))
    [] e[1] = "asg" -> Asg(e[2], IF mode >= 1 THEN Par(Wrap(e[3], mode)) ELSE Wrap(e[3], mode))
    [] e[1] = "un" -> Un(e[2], IF mode >= 1 THEN Par(Wrap(e[3], mode)) ELSE Wrap(e[3], mode))
    [] e[1] = "bin" -> Bin(e[2], IF mode >= 1 THEN Par(Wrap(e[3], mode)) ELSE Wrap(e[3], mode), IF mode >= 1 THEN Par(Wrap(e[4], mode)) ELSE Wrap(e[4], mode))
RECURSIVE WrapSeq(_, _)
\* mode 3: redundant parentheses around the whole expression of a statement (initialiser, printed / evaluated expression), nothing inside
\* mode 4: both — parentheses around the whole expression and around every operand: ((1) + (2)), the closing ones not adjacent
WholeExp(e, mode) == IF mode = 3 THEN Par(e) ELSE IF mode = 4 THEN (IF e[1] \in {"lit", "id"} THEN Par(Par(e)) ELSE Par(Wrap(e, 1))) ELSE Wrap(e, mode)
WrapStmt(s, mode) ==
  CASE s[1] = "var" -> (IF s[3] THEN SVar(s[2], TRUE, WholeExp(s[4], mode)) ELSE s)
    [] s[1] = "print" -> SPrint(WholeExp(s[4], mode)) [] s[1] = "eval" -> SEval(WholeExp(s[4], mode)) [] s[1] = "expr" -> SExpr(WholeExp(s[4], mode))
    [] s[1] = "def" -> SDef(s[2], s[3], WrapSeq(s[4], mode))
    [] OTHER -> s
WrapSeq(ss, mode) == IF ss = <<>> THEN <<>> ELSE <<WrapStmt(Head(ss), mode)>> \o WrapSeq(Tail(ss), mode)
\* drop the ';' that precedes a line break unless the next line starts with '+' or '-'
RECURSIVE DropSemi(_)
DropSemi(bs) ==
  IF bs = <<>> THEN <<>>
  ELSE IF Len(bs) >= 2 /\ bs[1] = 59 /\ bs[2] = 10 /\ (Len(bs) = 2 \/ bs[3] \notin {43, 45}) THEN <<10>> \o DropSemi(SubSeq(bs, 3, Len(bs)))
  ELSE <<Head(bs)>> \o DropSemi(Tail(bs))

\* ---- programs (a slice of the Gen_Prog families, plus expression statements that exercise every operator)
E0 == { L1, Id("x"), Asg("x", L2), Bin("+", Id("x"), L1), Bin("+", Par(Asg("y", L2)), Id("x")), Id("TYPE"),
        Bin("-", L1, Un("-", L2)), Bin("or", Un("not", Id("x")), Bin("and", L1, Lit(StrV(<<35, 59, 32, 40>>)))),
        Bin("<=", Bin("*", L2, Lit(FloatV(5, 2))), Bin("/", L1, L2)), Bin("==", Lit(BoolV(TRUE)), Lit(NilV)), Un("-", Par(Un("+", L1))),
        Un("not", Bin("==", Id("x"), L1)), Bin("!=", L1, Un("not", Bin("<", L2, Id("x")))) }      \* not reaches over the comparison that follows it
S0 == { SVar("x", FALSE, NoE), SVar("y", TRUE, L1) } \cup { SVar("x", TRUE, e) : e \in E0 } \cup { SPrint(e) : e \in E0 } \cup { SEval(e) : e \in E0 }
InB == S0 \cup { SExpr(e) : e \in E0 } \cup { SExpr(Asg("f", e)) : e \in E0 }
Items == InB \cup { SDef("b", nm, Opt(s)) : nm \in {"", "n"}, s \in InB \cup {None} } \cup { SBind("a", sel, tgt) : sel \in {"none", "last", "all", "bogus"}, tgt \in {"struct", "slice"} }
VARIABLES prog, phase, style, body, ch
vars == <<prog, phase, style, body, ch>>
Init == prog = <<>> /\ phase = 0 /\ style = [semi |-> FALSE, par |-> 0, rot |-> 0] /\ body = <<>> /\ ch = <<>>
AddItem == /\ Scope = "render" /\ phase < MaxItems /\ \E i \in Items : prog' = Append(prog, i)
           /\ phase' = phase + 1 /\ UNCHANGED <<style, body, ch>>
PickStyle == /\ Scope = "render" /\ phase >= 1 /\ phase <= MaxItems
             /\ \E sm \in BOOLEAN, pr \in 0..4, rt \in {0, 3, 5, 8, 11} : style' = [semi |-> sm, par |-> pr, rot |-> rt]
             /\ phase' = 100 /\ UNCHANGED <<prog, body, ch>>
\* string bodies: units (byte sequences) so that multi-byte characters stay whole; the last one needs no escape
Units == { <<35>>, <<59>>, <<40>>, <<41>>, <<32>>, <<9>>, <<11>>, <<12>>, <<13>>, <<194, 133>>, <<194, 160>>, <<34>>, <<92>>, <<97>> }
AddUnit == /\ Scope = "strings" /\ phase < MaxItems /\ \E u \in Units : body' = body \o u
           /\ phase' = phase + 1 /\ UNCHANGED <<prog, style, ch>>
\* what may stand inside a comment without ending it: every whitespace character but CR and LF (also the two-byte U+0085 and
\* U+00A0 and the line separators U+2028 / U+2029), control bytes, quotes, stray UTF-8 bytes
CommentUnits == { <<10>>, <<13>>, <<9>>, <<11>>, <<12>>, <<32>>, <<34>>, <<35>>, <<59>>, <<133>>, <<160>>, <<194>>, <<0>>, <<27>>, <<127>>,
                  <<194, 133>>, <<194, 160>>, <<226, 128, 168>>, <<226, 128, 169>>, <<13, 10>> }
\* "badchar": a byte sequence that is no token and no layout (an undecodable byte, a lone continuation or lead byte, U+FFFD itself, a
\* control character) directly after a token and after every separator of the pool: both renderings are rejected alike
BadUnits == { <<255>>, <<133>>, <<160>>, <<194>>, <<239, 191, 189>>, <<1>>, <<36>> }
PickBad == /\ Scope = "badchar" /\ phase = 0 /\ \E c \in BadUnits, r \in 1..(Len(Seps) - 1) : ch' = c /\ style' = [style EXCEPT !.rot = r]
           /\ phase' = 100 /\ UNCHANGED <<prog, body>>
\* "glue": two tokens that the L1 lexer separates without any layout between them (a number, a string, an operator or a bracket followed
\* by an identifier that starts with '_', by a string, by a number ...) written with and without a blank: the same program
GlueLeft == { <<49>>, <<48, 120, 49, 102>>, <<50, 46, 53>>, <<34, 115, 34>>, <<41>>, <<120>> }              \* 1  0x1f  2.5  "s"  )  x
GlueRight == { <<95, 97>>, <<95, 49>>, <<34, 116, 34>>, <<40, 49, 41>>, <<35, 99>> }                           \* _a  _1  "t"  (1)  #c
PickGlue == /\ Scope = "glue" /\ phase = 0 /\ \E l \in GlueLeft, r \in GlueRight : body' = l /\ ch' = r
            /\ phase' = 100 /\ UNCHANGED <<prog, style>>
GlueOk == LET a == [k |-> "x", text |-> body] b == [k |-> "x", text |-> ch]
              ta == ToksOf(body) tb == ToksOf(ch) tab == ToksOf(body \o ch) IN
          Len(ta) = 2 /\ Len(tb) >= 2 /\ Len(tab) = Len(ta) + Len(tb) - 1 /\ tab[1] = ta[1] /\ tab[2] = tb[1]
PickCh == /\ Scope = "comment" /\ phase = 0 /\ \E c \in CommentUnits : ch' = c
          /\ phase' = 100 /\ UNCHANGED <<prog, style, body>>
Next == AddItem \/ PickStyle \/ AddUnit \/ PickCh \/ PickBad \/ PickGlue
Spec == Init /\ [][Next]_vars

\* a def a {...} around the block items keeps fields and TYPE legal
Whole == << SVar("x", TRUE, L2), SVar("y", FALSE, NoE), SDef("a", "", prog) >>
SrcA == RenSeq(Whole)
SrcB0 == RenSeq(WrapSeq(Whole, style.par))
SrcB == Join(ToksOf(IF style.semi THEN DropSemi(SrcB0) ELSE SrcB0), 1, style.rot)
Proj(ts) == [i \in 1..Len(ts) |-> [k |-> ts[i].k, text |-> ts[i].text]]
\* L1 statement of layout independence for separators: re-joining the tokens of a text with any admissible separators gives the same tokens
SameTokens == (Scope = "render" /\ phase = 100) =>
                 LET t0 == ToksOf(IF style.semi THEN DropSemi(SrcB0) ELSE SrcB0) IN Proj(ToksOf(SrcB)) = Proj(t0)
StrSrc == <<112, 114, 105, 110, 116, 32, 34>> \o EscPlain(body) \o <<34, 10>>
CmtSrc == <<112, 114, 105, 110, 116, 32, 49, 32, 35, 99>> \o ch \o <<112, 114, 105, 110, 116, 32, 50, 10>>
Emit ==
  /\ (Scope = "render" /\ phase = 100) =>
        PrintT(<<"CASE", ToJson([fam |-> "layout", kind |-> "pair", a |-> SrcA, b |-> SrcB, out |-> <<>>, nt |-> (Len(prog) >= 2)])>>)
  /\ (Scope = "strings" /\ phase >= 1) =>
        PrintT(<<"CASE", ToJson([fam |-> "layout", kind |-> "string", a |-> StrSrc, b |-> <<>>, out |-> body \o <<10>>, nt |-> (phase >= 2)])>>)
  /\ (Scope = "glue" /\ phase = 100 /\ GlueOk) =>
        PrintT(<<"CASE", ToJson([fam |-> "layout", kind |-> "pair", a |-> <<100, 101, 102, 32, 98, 32, 123, 32, 120, 32, 61, 32>> \o body \o <<32>> \o ch \o <<10, 125, 10>>,
                                  b |-> <<100, 101, 102, 32, 98, 32, 123, 32, 120, 32, 61, 32>> \o body \o ch \o <<10, 125, 10>>, out |-> <<>>, nt |-> TRUE])>>)
  /\ (Scope = "badchar" /\ phase = 100) =>
        PrintT(<<"CASE", ToJson([fam |-> "layout", kind |-> "pair", a |-> <<112, 114, 105, 110, 116, 32, 49>> \o ch \o <<10>>,
                                  b |-> <<112, 114, 105, 110, 116, 32, 49>> \o Seps[style.rot] \o ch \o <<10>>, out |-> <<>>, nt |-> TRUE])>>)
  /\ (Scope = "comment" /\ phase = 100) =>
        PrintT(<<"CASE", ToJson([fam |-> "layout", kind |-> "comment", a |-> CmtSrc, b |-> <<>>,
                                  out |-> IF ch \in {<<10>>, <<13>>, <<13, 10>>} THEN <<49, 10, 50, 10>> ELSE <<49, 10>>, nt |-> TRUE])>>)
====
