---- MODULE MC_Gram ----
\* Design-level check (MC) for C17 / C06: on *arbitrary* token strings — not only on sentences — the two definitions of the
\* language agree about acceptance: the L1 recogniser with the static rules (BclGrammar!Accepts) and the L2 chain
\* L1 lexer -> compiler machine (BclCompiler, the Pratt parser with its panic-mode recovery as an explicit machine). The
\* compiler machine must also come to an end on every such input: a stuck machine (a CASE with no branch, an index out of
\* range) stops TLC with an evaluation error. Scopes are those of Gen_Gram ("all", "viable" with its mutations, "assign",
\* "bindsel", "nest").
EXTENDS Gen_Gram
Lx == INSTANCE BclLex
C == INSTANCE BclCompiler WITH LocalsMax <- 8, JumpMax <- 65535
ToksOf(bs) == LET tk == Lx!RefTokens(bs) IN
              [i \in 1..Len(tk) |-> [k |-> tk[i].k, pos |-> tk[i].pos, msg |-> tk[i].msg,
                                     text |-> IF tk[i].k \in {"ERR", "FAIL", "EOF"} THEN <<>> ELSE SubSeq(bs, tk[i].from + 1, tk[i].pos)]]
Judged == Scope # "recover" /\ (Scope \notin {"assign", "bindsel", "nest"} \/ phase = 1)
SameVerdict == Judged => (LET c == C!Compile(ToksOf(Src(ts))) IN c.ood \/ (c.hadError = ~Accepts(ts)))
====
