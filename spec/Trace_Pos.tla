---- MODULE Trace_Pos ----
\* TV for C08 on arbitrary inputs: every compile diagnostic the real parser printed (batch file diags.ndjson: source bytes + the parsed
\* 'line L:C', quoted token, 'at end' flag of each log line) must designate a location that exists in the source and is the end of a
\* token of the L1 lexer BclLex: the quoted text is exactly the source text ending there, 'at end' is the end of input, and a
\* diagnostic without a quoted token (a lexical error) sits just after the byte the L1 lexer rejects.
EXTENDS BclLex, FiniteSets, TLC, Json
Batch == ndJsonDeserialize("diags.ndjson")
LineCol(bs, p) ==
  LET nl == { i \in 1..Len(bs) : bs[i] = 10 /\ i - 1 < p } IN
  IF nl = {} THEN <<1, p + 1>>
  ELSE LET last == CHOOSE i \in nl : \A j \in nl : j <= i IN <<Cardinality(nl) + 1, p - (last - 1)>>
VARIABLE k
Init == k \in 1..Len(Batch)
Next == UNCHANGED k
Spec == Init /\ [][Next]_k
DiagOk(bs, toks, d) ==
  LET ps == { p \in 0..Len(bs) : LineCol(bs, p) = <<d.l, d.c>> } IN
  /\ ps # {}
  /\ LET p == CHOOSE x \in ps : TRUE IN
     IF d.atend THEN p = Len(bs) /\ \E i \in 1..Len(toks) : toks[i].k = "EOF" /\ toks[i].pos = p
     ELSE IF d.hastok THEN \E i \in 1..Len(toks) : toks[i].pos = p /\ toks[i].k \notin {"ERR", "FAIL", "EOF"} /\ SubSeq(bs, toks[i].from + 1, toks[i].pos) = d.tok
     ELSE \E i \in 1..Len(toks) : toks[i].pos = p /\ toks[i].k \in {"ERR", "FAIL"}
Located == LET b == Batch[k] toks == RefTokens(b.src) IN \A i \in 1..Len(b.diags) : DiagOk(b.src, toks, b.diags[i])
====
