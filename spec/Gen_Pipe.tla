---- MODULE Gen_Pipe ----
\* GEN front end for C11: every reader script of the bounded model with the contract outcomes TLC reaches for it over all
\* schedules (one CASE line per distinct quiescent state; the harness unites them per script).
EXTENDS BclPipeline, Json
ScriptJ(s) == [i \in 1..Len(s) |-> [n |-> s[i].n, e |-> s[i].e, toks |-> s[i].toks, bad |-> s[i].bad, fail |-> s[i].fail]]
Emit == Quiescent => PrintT(<<"CASE", ToJson([fam |-> "pipe", script |-> ScriptJ(script0), ret |-> Ret, closes |-> closeCount,
                                              reads |-> reads, rafter |-> readsAfterFail])>>)
====
