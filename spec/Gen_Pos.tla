---- MODULE Gen_Pos ----
\* MC + GEN front end for C08: diagnostics point at the true source location.
\* L1: LineCol(bytes, p) — line = 1 + number of LF before offset p, column = p - (offset of the preceding LF), or p + 1 on line 1.
\* L2: LineColOf(lfs, p) — the binary search over the recorded newline offsets as linecalc.go does it.
\*  "mc"      LineColOf(NewlineOffsets(bs), p) = LineCol(bs, p) for every byte string over {LF, CR, a} up to MaxLen and every p
\*  "shapes"  statements whose offending token / failing operation is known by construction (compile errors with a quoted token, 'at end',
\*            lexical errors, runtime errors of binary, unary, parenthesised, unresolved, bind and duplicate-child kinds, the repeated-bind
\*            warning) placed after layout prefixes: concrete ones (blank lines, CR LF, tabs, comments, multi-byte characters) and scaled
\*            ones (n spaces, a comment line of n bytes, n newlines, for n across 240/241, 2287/2288, 4096, 67823/67824) with the
\*            expected line, column and quoted text in closed form.
EXTENDS BclLineCol, TLC, Json
CONSTANTS Scope, MaxLen

VARIABLES bs, phase, shape, pre
vars == <<bs, phase, shape, pre>>
B(s) == CASE s = "print " -> <<112, 114, 105, 110, 116, 32>> [] s = "var " -> <<118, 97, 114, 32>> [] s = "eval " -> <<101, 118, 97, 108, 32>>
\* a shape: text of the statement(s), offset just after the offending token / last token of the failing operation (relative to the
\* start of the text), the quoted token (compile errors) and the diagnostic class
Sh(name, txt, off, tok, class) == [name |-> name, txt |-> txt, off |-> off, tok |-> tok, class |-> class]
Shapes == {
  Sh("rparen", B("print ") \o <<41, 10>>, 7, <<41>>, "compile"),                                           \* print )        at ')'
  Sh("vareq", B("var ") \o <<61, 32, 49, 10>>, 5, <<61>>, "compile"),                                      \* var = 1        at '='
  Sh("ident", B("eval ") \o <<42, 32, 120, 121, 122, 10>>, 6, <<42>>, "compile"),                          \* eval * xyz     at '*'
  Sh("undef", B("print ") \o <<120, 121, 122, 32, 43, 32, 49, 10>>, 9, <<120, 121, 122>>, "compile"),      \* print xyz + 1  undefined variable at 'xyz'
  Sh("atend", B("print ") \o <<49, 32, 43>>, 9, <<>>, "atend"),                                            \* print 1 +      at end
  Sh("lexerr", B("print ") \o <<49, 32, 36, 32, 50, 10>>, 9, <<>>, "lex"),                                 \* print 1 $ 2    unknown char: just after '$'
  Sh("unterm", B("eval ") \o <<34, 97, 98, 99, 10>> \o B("print ") \o <<49, 10>>, 10, <<>>, "lex"),                  \* eval "abc LF print 1   a string ended by the line: just after the LF
  Sh("untermbs", B("eval ") \o <<34, 97, 98, 99, 92, 10>> \o B("print ") \o <<49, 10>>, 11, <<>>, "lex"),           \* eval "abc\ LF print 1  the escape takes the LF: just after it
  Sh("untermbseof", B("eval ") \o <<34, 97, 98, 99, 92>>, 10, <<>>, "lex"),                                         \* eval "abc\ at the end of input
  Sh("strpct", B("eval ") \o <<49, 32, 34, 53, 48, 37, 100, 32, 37, 115, 34, 10>>, 16, <<34, 53, 48, 37, 100, 32, 37, 115, 34>>, "compile"),   \* eval 1 "50%d %s"   at the string, quoted as written
  Sh("binop", B("print ") \o <<49, 32, 43, 32, 110, 105, 108, 32, 10>>, 13, <<>>, "runtime"),              \* print 1 + nil  after 'nil'
  Sh("binpar", B("print ") \o <<49, 32, 45, 32, 40, 34, 115, 34, 41, 10>>, 15, <<>>, "runtime"),           \* print 1 - ("s") after ')'
  Sh("unary", B("print ") \o <<45, 32, 34, 115, 34, 10>>, 11, <<>>, "runtime"),                            \* print - "s"    after the string
  Sh("divzero", B("eval ") \o <<55, 47, 48, 59, 10>>, 8, <<>>, "runtime"),                                 \* eval 7/0;      after '0'
  Sh("unres", <<100, 101, 102, 32, 98, 32, 123, 32>> \o B("print ") \o <<122, 122, 32, 125, 10>>, 16, <<>>, "runtime"),   \* def b { print zz }   after 'zz'
  Sh("bindnone", <<98, 105, 110, 100, 32, 113, 32, 45, 62, 32, 115, 116, 114, 117, 99, 116, 10>>, 16, <<>>, "runtime"),   \* bind q -> struct     after 'struct'
  Sh("dupchild", <<100, 101, 102, 32, 97, 32, 123, 32, 100, 101, 102, 32, 99, 32, 123, 125, 32, 100, 101, 102, 32, 99, 32, 123, 32, 125, 32, 125, 10>>, 26, <<>>, "runtime"),
                                                                                                          \* def a { def c {} def c { } }  after the second child's '}'
  Sh("rebind", <<100, 101, 102, 32, 97, 32, 123, 125, 10, 98, 105, 110, 100, 32, 97, 32, 45, 62, 32, 115, 116, 114, 117, 99, 116, 10,
                 98, 105, 110, 100, 32, 97, 58, 108, 97, 115, 116, 32, 45, 62, 32, 115, 108, 105, 99, 101, 10>>, 46, <<>>, "warning")
                                                                                                          \* def a {}\nbind a -> struct\nbind a:last -> slice   warning after 'slice'
}
\* concrete layout prefixes (bytes) and scaled ones (kind, n)
Pre(kind, n, bytes) == [kind |-> kind, n |-> n, bytes |-> bytes]
Concrete == { <<>>, <<10>>, <<10, 10>>, <<13, 10>>, <<32, 32>>, <<9>>, <<35, 32, 99, 10>>, <<35, 195, 169, 10, 32>>, <<194, 160>>, <<10, 194, 133, 32>>,
              B("print ") \o <<49, 10>>, B("print ") \o <<34, 195, 169, 10>> \o <<>>, <<13>>, <<10, 13>>, <<11, 12, 10, 32>>,
              <<35, 226, 130, 172, 10, 10>>, <<35, 32, 195, 169, 195, 169, 10, 9>>, B("print ") \o <<34, 226, 130, 172, 34, 10, 10>> }
ScaleNs == { 230, 238, 239, 240, 241, 242, 2286, 2287, 2288, 2289, 4090, 4095, 4096, 4097, 8192, 67822, 67823, 67824, 67825 }
Prefixes == { Pre("bytes", 0, c) : c \in Concrete \ { B("print ") \o <<34, 195, 169, 10>> } }
              \cup { Pre(k, n, <<>>) : k \in {"spaces", "commentline", "newlines"}, n \in ScaleNs }

Init == bs = <<>> /\ phase = 0 /\ shape = (CHOOSE s \in Shapes : TRUE) /\ pre = Pre("bytes", 0, <<>>)
Grow == Scope = "mc" /\ Len(bs) < MaxLen /\ \E b \in {10, 13, 97} : bs' = Append(bs, b) /\ UNCHANGED <<phase, shape, pre>>
PickShape == Scope = "shapes" /\ phase = 0 /\ \E s \in Shapes : shape' = s /\ phase' = 1 /\ UNCHANGED <<bs, pre>>
PickPre == Scope = "shapes" /\ phase = 1 /\ \E p \in Prefixes : pre' = p /\ phase' = 2 /\ UNCHANGED <<bs, shape>>
Next == Grow \/ PickShape \/ PickPre
Spec == Init /\ [][Next]_vars

\* ---- MC: the implementation's algorithm agrees with the definition at every offset (incl. one past the end)
Lemma == Scope = "mc" => \A p \in 0..Len(bs) : LineColOf(NewlineOffsets(bs), p) = LineCol(bs, p)
\* ---- expected location of a shape after a prefix
Expected ==
  LET off == shape.off IN
  CASE pre.kind = "bytes" -> LineCol(pre.bytes \o shape.txt, Len(pre.bytes) + off)
    [] pre.kind = "spaces" -> (LET lc == LineCol(shape.txt, off) IN IF lc[1] = 1 THEN <<1, pre.n + lc[2]>> ELSE lc)
    [] pre.kind = "commentline" -> (LET lc == LineCol(shape.txt, off) IN <<lc[1] + 1, lc[2]>>)
    [] pre.kind = "newlines" -> (LET lc == LineCol(shape.txt, off) IN <<lc[1] + pre.n, lc[2]>>)
Emit == (Scope = "shapes" /\ phase = 2) =>
  PrintT(<<"CASE", ToJson([fam |-> "pos", name |-> shape.name, class |-> shape.class, pkind |-> pre.kind, pn |-> pre.n, pbytes |-> pre.bytes,
                            txt |-> shape.txt, tok |-> shape.tok, line |-> Expected[1], col |-> Expected[2], nt |-> TRUE])>>)
====
