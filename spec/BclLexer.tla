---- MODULE BclLexer ----
\* L2: the streaming lexer of lex.go as a Step-function machine; one next() per step.
EXTENDS BclChars, TLC
CONSTANT Faithful   \* TRUE: model the pinned code (partial-rune decode, empty chunk = EOF); FALSE: the required lexer

Tok(k, text, pos, msg) == [k |-> k, text |-> text, pos |-> pos, msg |-> msg]

InitL(chunks) == [ win |-> <<>>, start |-> 0, pos |-> 0, shift |-> 0, width |-> 0,
                   lab |-> "start", reg |-> 0, acc |-> FALSE,
                   out |-> <<>>, lfs |-> <<>>, chunks |-> chunks, done |-> FALSE ]

NewlinesOf(chunk, prefix) ==
  LET idx == { i \in 1..Len(chunk) : chunk[i] = 10 }
      RECURSIVE Asc(_, _)
      Asc(S, acc) == IF S = {} THEN acc ELSE LET m == CHOOSE x \in S : \A y \in S : x <= y IN Asc(S \ {m}, Append(acc, prefix + m - 1))
  IN Asc(idx, <<>>)

\* one refill: take the next chunk (or observe the closed channel)
Refill(s) ==
  LET closed == s.chunks = <<>>
      c == IF closed THEN <<>> ELSE Head(s.chunks)
      keepTo == IF Faithful THEN s.pos ELSE Len(s.win)
      kept == SubSeq(s.win, s.start + 1, keepTo)
      glob == s.shift + keepTo                    \* global offset of the chunk's first byte
  IN [s EXCEPT !.win = kept \o c, !.shift = s.shift + s.start, !.pos = s.pos - s.start, !.start = 0,
               !.lfs = s.lfs \o NewlinesOf(c, glob),
               !.chunks = IF closed THEN <<>> ELSE Tail(s.chunks)]

\* next(): returns [s, r]
RECURSIVE NxReq(_)
NxReq(s) ==  \* required: refill until a complete rune is available or the channel is closed
  IF (s.pos >= Len(s.win) \/ ~FullRuneAt(s.win, s.pos + 1)) /\ s.chunks # <<>>
  THEN NxReq(Refill(s))
  ELSE LET d == DecodeAt(s.win, s.pos + 1) IN
       [s |-> [s EXCEPT !.pos = s.pos + d.w, !.width = d.w], r |-> d.r]
NxFaithful(s) ==  \* lex.go:79-101
  LET s1 == IF s.pos >= Len(s.win)
            THEN (IF s.chunks = <<>> /\ s.pos = s.start THEN s ELSE Refill(s))
            ELSE s
      d == DecodeAt(s1.win, s1.pos + 1)
  IN [s |-> [s1 EXCEPT !.pos = s1.pos + d.w, !.width = d.w], r |-> d.r]
Nx(s) == IF Faithful THEN NxFaithful(s) ELSE NxReq(s)

Backup(s) == [s EXCEPT !.pos = s.pos - s.width]
Unbackup(s) == [s EXCEPT !.pos = s.pos + s.width]
Cur(s) == SubSeq(s.win, s.start + 1, s.pos)
Goto(s, l) == [s EXCEPT !.lab = l]
Emit(s, k) == [s EXCEPT !.out = Append(s.out, Tok(k, Cur(s), s.pos + s.shift, "")), !.start = s.pos]
Ignore(s) == [s EXCEPT !.start = s.pos]
Fail(s, msg) ==
  LET s1 == [s EXCEPT !.out = Append(s.out, Tok("ERR", <<>>, s.pos + s.shift, msg))]
      s2 == Ignore(s1)
  IN [Emit(s2, "FAIL") EXCEPT !.done = TRUE]

Second(r) == IF r = 45 THEN 62 ELSE 61            \* '-' pairs with '>', the others with '='
TwoKind(r) == CASE r = 61 -> "EE" [] r = 33 -> "BE" [] r = 60 -> "LE" [] r = 62 -> "GE" [] r = 45 -> "ARROW"
OneKind(r) == CASE r = 61 -> "EQ" [] r = 123 -> "LCURLY" [] r = 125 -> "RCURLY" [] r = 40 -> "LPAREN" [] r = 41 -> "RPAREN"
                [] r = 60 -> "LT" [] r = 62 -> "GT" [] r = 43 -> "PLUS" [] r = 45 -> "MINUS" [] r = 42 -> "STAR"
                [] r = 47 -> "SLASH" [] r = 58 -> "COLON" [] r = 59 -> "SEMICOLON" [] OTHER -> ""
Keyword(bs) ==
  CASE bs = <<118, 97, 114>> -> "VAR" [] bs = <<100, 101, 102>> -> "DEF" [] bs = <<101, 118, 97, 108>> -> "EVAL"
    [] bs = <<112, 114, 105, 110, 116>> -> "PRINT" [] bs = <<98, 105, 110, 100>> -> "BIND"
    [] bs = <<116, 114, 117, 101>> -> "TRUE" [] bs = <<102, 97, 108, 115, 101>> -> "FALSE" [] bs = <<110, 105, 108>> -> "NIL"
    [] bs = <<110, 111, 116>> -> "NOT" [] bs = <<97, 110, 100>> -> "AND" [] bs = <<111, 114>> -> "OR" [] OTHER -> "IDENT"

LStart(s) ==
  LET n == Nx(s) t == n.s r == n.r IN
  IF r = EOFR THEN [Emit(t, "EOF") EXCEPT !.done = TRUE]
  ELSE IF r \in {61, 33, 60, 62, 45} THEN Goto([t EXCEPT !.reg = r], "two")
  ELSE IF OneKind(r) # "" THEN Emit(t, OneKind(r))
  ELSE IF IsSpace(r) THEN Goto(t, "space")
  ELSE IF r = 35 THEN Goto(t, "comment")
  ELSE IF r = 34 THEN Goto(t, "quote")
  ELSE IF IsIdentStart(r) THEN Goto(t, "ident")
  ELSE IF IsDigit(r) THEN Goto(Backup(t), "numZero")
  ELSE Fail(t, "unknown char")
LTwo(s) ==
  LET n == Nx(s) t == n.s IN
  IF n.r = Second(s.reg) THEN Goto(Emit(t, TwoKind(s.reg)), "start")
  ELSE LET b == Backup(t) IN
       IF OneKind(s.reg) = "" THEN Fail(b, "expected char to start token")
       ELSE Goto(Emit(b, OneKind(s.reg)), "start")
LSpace(s) == LET n == Nx(s) IN IF IsSpace(n.r) THEN n.s ELSE Goto(Ignore(Backup(n.s)), "start")
LComment(s) == LET n == Nx(s) IN IF IsEol(n.r) \/ n.r = EOFR THEN Goto(Ignore(Backup(n.s)), "start") ELSE n.s
LIdent(s) == LET n == Nx(s) IN IF IsIdentPart(n.r) THEN n.s ELSE Goto(Backup(n.s), "identPeek")
LIdentPeek(s) ==
  LET n == Nx(s) b == Backup(n.s) IN
  IF n.r = 34 THEN Fail(Unbackup(b), "invalid syntax") ELSE Goto(Emit(b, Keyword(Cur(b))), "start")
LNumZero(s) == LET n == Nx(s) IN IF n.r = 48 THEN Goto(n.s, "numX") ELSE Goto(Backup(n.s), "numDigits")
LNumX(s) == LET n == Nx(s) IN IF n.r \in {120, 88} THEN Goto(n.s, "hex") ELSE Goto(Backup(n.s), "numDigits")
LNumDigits(s) == LET n == Nx(s) IN IF IsDigit(n.r) THEN n.s ELSE Goto(Backup(n.s), "numPeek")
LNumPeek(s) ==
  LET n == Nx(s) b == Backup(n.s) IN
  IF n.r \in {46, 101, 69} THEN Goto(b, "floatDot")
  ELSE IF n.r = 34 \/ IsAlpha(n.r) THEN Fail(Unbackup(b), "invalid syntax")
  ELSE Goto(Emit(b, "INT"), "start")
LHex(s) == LET n == Nx(s) IN IF IsHex(n.r) THEN n.s ELSE Goto(Backup(n.s), "hexPeek")
LHexPeek(s) ==
  LET n == Nx(s) b == Backup(n.s) IN
  IF n.r = 46 \/ n.r = 34 \/ IsAlpha(n.r) THEN Fail(Unbackup(b), "invalid syntax") ELSE Goto(Emit(b, "INT"), "start")
LFloatDot(s) == LET n == Nx(s) IN IF n.r = 46 THEN Goto([n.s EXCEPT !.acc = FALSE], "frac") ELSE Goto(Backup(n.s), "floatExp")
LFrac(s) ==
  LET n == Nx(s) IN
  IF IsDigit(n.r) THEN [n.s EXCEPT !.acc = TRUE]
  ELSE IF ~s.acc THEN Fail(Backup(n.s), "need more digits after a dot") ELSE Goto(Backup(n.s), "floatExp")
LFloatExp(s) == LET n == Nx(s) IN IF n.r \in {101, 69} THEN Goto(n.s, "expSign") ELSE Goto(Backup(n.s), "floatPeek")
LExpSign(s) == LET n == Nx(s) IN IF n.r \in {43, 45} THEN Goto([n.s EXCEPT !.acc = FALSE], "expDigits") ELSE Goto([Backup(n.s) EXCEPT !.acc = FALSE], "expDigits")
LExpDigits(s) ==
  LET n == Nx(s) IN
  IF IsDigit(n.r) THEN [n.s EXCEPT !.acc = TRUE]
  ELSE IF ~s.acc THEN Fail(Backup(n.s), "need more digits for an exponent") ELSE Goto(Backup(n.s), "floatPeek")
LFloatPeek(s) ==
  LET n == Nx(s) b == Backup(n.s) IN
  IF n.r = 34 \/ IsAlpha(n.r) THEN Fail(Unbackup(b), "invalid syntax") ELSE Goto(Emit(b, "FLOAT"), "start")
LQuote(s) ==
  LET n == Nx(s) IN
  IF n.r = 92 THEN Goto(n.s, "quoteEsc")
  ELSE IF n.r = EOFR \/ n.r = 10 THEN Fail(n.s, "unterminated quoted string")
  ELSE IF n.r = 34 THEN Goto(n.s, "quotePeek")
  ELSE n.s
LQuoteEsc(s) ==
  LET n == Nx(s) IN IF n.r # EOFR /\ n.r # 10 THEN Goto(n.s, "quote") ELSE Fail(n.s, "unterminated quoted string")
LQuotePeek(s) ==
  LET n == Nx(s) b == Backup(n.s) IN
  IF IsAlnum(n.r) THEN Fail(Unbackup(b), "invalid syntax") ELSE Goto(Emit(b, "STR"), "start")

StepL(s) ==
  CASE s.lab = "start" -> LStart(s) [] s.lab = "two" -> LTwo(s) [] s.lab = "space" -> LSpace(s)
    [] s.lab = "comment" -> LComment(s) [] s.lab = "ident" -> LIdent(s) [] s.lab = "identPeek" -> LIdentPeek(s)
    [] s.lab = "numZero" -> LNumZero(s) [] s.lab = "numX" -> LNumX(s) [] s.lab = "numDigits" -> LNumDigits(s)
    [] s.lab = "numPeek" -> LNumPeek(s) [] s.lab = "hex" -> LHex(s) [] s.lab = "hexPeek" -> LHexPeek(s)
    [] s.lab = "floatDot" -> LFloatDot(s) [] s.lab = "frac" -> LFrac(s) [] s.lab = "floatExp" -> LFloatExp(s)
    [] s.lab = "expSign" -> LExpSign(s) [] s.lab = "expDigits" -> LExpDigits(s) [] s.lab = "floatPeek" -> LFloatPeek(s)
    [] s.lab = "quote" -> LQuote(s) [] s.lab = "quoteEsc" -> LQuoteEsc(s) [] s.lab = "quotePeek" -> LQuotePeek(s)
RECURSIVE RunL(_)
RunL(s) == IF s.done THEN s ELSE RunL(StepL(s))
LexChunks(chunks) == RunL(InitL(chunks))
====
