---- MODULE BclFormat ----
\* L1: the version 1.1 bytecode file format as functions on byte sequences (C09, C13, C14).
\*   magic FC 6C, major 1, minor <= 1, name, code, typed constants, positions (one per code byte), line table;
\*   sizes and numbers are sqlite4 varints (big-endian), floats 8 bytes big-endian IEEE-754, ints the uvarint of their
\*   two's-complement 64-bit pattern. Everything is written from the format comment in prog.go and the sqlite4 varint definition.
\* Numbers TLC cannot hold (uvarints >= 2^24 in the 5..9 byte classes) are carried as raw bytes ("opaque") and re-encoded verbatim.
EXTENDS BclValues

\* ---- uvarint at 1-based index i: [v, n, raw]; v = -1 when opaque
UvLen(a0) == IF a0 <= 240 THEN 1 ELSE IF a0 <= 248 THEN 2 ELSE a0 - 246
Uv(bs, i) ==
  LET a0 == bs[i] IN
  IF a0 <= 240 THEN [v |-> a0, n |-> 1]
  ELSE IF a0 <= 248 THEN [v |-> 240 + 256 * (a0 - 241) + bs[i + 1], n |-> 2]
  ELSE IF a0 = 249 THEN [v |-> 2288 + 256 * bs[i + 1] + bs[i + 2], n |-> 3]
  ELSE IF a0 = 250 THEN [v |-> bs[i + 1] * 65536 + bs[i + 2] * 256 + bs[i + 3], n |-> 4]
  ELSE [v |-> -1, n |-> a0 - 246]
EncUv(v) ==
  IF v <= 240 THEN <<v>>
  ELSE IF v <= 2287 THEN << (v - 240) \div 256 + 241, (v - 240) % 256 >>
  ELSE IF v <= 67823 THEN << 249, (v - 2288) \div 256, (v - 2288) % 256 >>
  ELSE IF v < 16777216 THEN << 250, v \div 65536, (v \div 256) % 256, v % 256 >>
  ELSE << 251, v \div 16777216, (v \div 65536) % 256, (v \div 256) % 256, v % 256 >>
\* the canonical encoding is the shortest: a decoder may accept others, an encoder must not produce them
Canonical(bs, i) == LET u == Uv(bs, i) IN u.v < 0 \/ EncUv(u.v) = SubSeq(bs, i, i + u.n - 1)

\* ---- IEEE-754 double, big-endian, to an exact dyadic (or OOD)
RECURSIVE Pow2(_)
Pow2(k) == IF k = 0 THEN 1 ELSE 2 * Pow2(k - 1)
RECURSIVE Tz(_)
Tz(n) == IF n % 2 = 1 THEN 0 ELSE 1 + Tz(n \div 2)
FloatOf(b) ==
  LET neg == b[1] >= 128
      e == (b[1] % 128) * 16 + (b[2] \div 16)
      M == (b[2] % 16) * 16777216 + b[3] * 65536 + b[4] * 256 + b[5]
  IN IF b[6] # 0 \/ b[7] # 0 \/ b[8] # 0 THEN OodV("float-bits")
     ELSE IF e = 0 /\ M = 0 THEN (IF neg THEN OodV("neg-zero") ELSE V("float", 0, 1, <<>>, ""))
     ELSE IF e = 0 \/ e = 2047 THEN OodV("float-bits")
     ELSE LET num == 268435456 + M  tz == Tz(num)  odd == num \div Pow2(tz)  k == e - 1051 + tz IN
          IF k >= 0 THEN (IF k > 20 THEN OodV("float-range") ELSE FloatV((IF neg THEN -1 ELSE 1) * odd * Pow2(k), 1))
          ELSE IF -k > 14 THEN OodV("float-range") ELSE FloatV((IF neg THEN -1 ELSE 1) * odd, Pow2(-k))

\* ---- typed values. Raw form [t, i, raw] keeps exactly what is needed to re-encode; ValOf gives the BclValues value
Val(bs, i) ==
  LET tc == bs[i] IN
  CASE tc = 0 -> [v |-> [t |-> "nil", i |-> 0, raw |-> <<>>], n |-> 1]
    [] tc = 1 -> LET u == Uv(bs, i + 1) IN [v |-> [t |-> "int", i |-> u.v, raw |-> IF u.v < 0 THEN SubSeq(bs, i + 1, i + u.n) ELSE <<>>], n |-> 1 + u.n]
    [] tc = 2 -> [v |-> [t |-> "float", i |-> 0, raw |-> SubSeq(bs, i + 1, i + 8)], n |-> 9]
    [] tc = 3 -> LET u == Uv(bs, i + 1) IN [v |-> [t |-> "str", i |-> 0, raw |-> SubSeq(bs, i + 1 + u.n, i + u.n + u.v)], n |-> 1 + u.n + u.v]
    [] tc = 4 -> [v |-> [t |-> "bool", i |-> bs[i + 1], raw |-> <<>>], n |-> 2]
    [] OTHER -> [v |-> [t |-> "bad", i |-> tc, raw |-> <<>>], n |-> 1]
EncVal(v) == CASE v.t = "nil" -> <<0>> [] v.t = "int" -> <<1>> \o (IF v.i < 0 THEN v.raw ELSE EncUv(v.i)) [] v.t = "float" -> <<2>> \o v.raw
               [] v.t = "str" -> <<3>> \o EncUv(Len(v.raw)) \o v.raw [] v.t = "bool" -> <<4, v.i>>
\* an int in the 9-byte class is the two's-complement pattern of a negative number (or a huge one): small negatives are computable
NegOf(raw) == IF Len(raw) = 9 /\ raw[1] = 255 /\ (\A i \in 2..6 : raw[i] = 255) THEN IntV((raw[7] * 65536 + raw[8] * 256 + raw[9]) - 16777216) ELSE OodV("bigint")
ValOf(r) == CASE r.t = "nil" -> NilV [] r.t = "int" -> (IF r.i < 0 THEN NegOf(r.raw) ELSE IntV(r.i)) [] r.t = "float" -> FloatOf(r.raw)
              [] r.t = "str" -> StrV(r.raw) [] r.t = "bool" -> BoolV(r.i # 0) [] OTHER -> OodV("bad-const")
RECURSIVE Vals(_, _, _, _)
Vals(bs, i, k, acc) == IF k = 0 THEN [vs |-> acc, i |-> i] ELSE LET x == Val(bs, i) IN Vals(bs, i + x.n, k - 1, Append(acc, x.v))
RECURSIVE Uvs(_, _, _, _)
Uvs(bs, i, k, acc) == IF k = 0 THEN [vs |-> acc, i |-> i] ELSE LET x == Uv(bs, i) IN Uvs(bs, i + x.n, k - 1, Append(acc, x.v))

\* ---- a complete, well-formed file (use only on files known to be complete, e.g. real dumps)
DecodeProg(bs) ==
  LET nm == Uv(bs, 5)  i1 == 5 + nm.n + nm.v  cl == Uv(bs, i1)  i2 == i1 + cl.n  i3 == i2 + cl.v
      cn == Uv(bs, i3)  cs == Vals(bs, i3 + cn.n, cn.v, <<>>)
      pn == Uv(bs, cs.i)  ps == Uvs(bs, cs.i + pn.n, pn.v, <<>>)
      ln == Uv(bs, ps.i)  ls == Uvs(bs, ps.i + ln.n, ln.v, <<>>)
  IN [magicOk |-> bs[1] = 252 /\ bs[2] = 108 /\ bs[3] = 1 /\ bs[4] <= 1, minor |-> bs[4],
      name |-> SubSeq(bs, 5 + nm.n, 4 + nm.n + nm.v), code |-> SubSeq(bs, i2, i2 + cl.v - 1),
      consts |-> cs.vs, positions |-> ps.vs, lfs |-> ls.vs, end |-> ls.i]
RECURSIVE CatVals(_)
CatVals(xs) == IF xs = <<>> THEN <<>> ELSE EncVal(Head(xs)) \o CatVals(Tail(xs))
RECURSIVE CatUvs(_)
CatUvs(xs) == IF xs = <<>> THEN <<>> ELSE EncUv(Head(xs)) \o CatUvs(Tail(xs))
EncodeProg(p) == <<252, 108, 1, p.minor>> \o EncUv(Len(p.name)) \o p.name \o EncUv(Len(p.code)) \o p.code
                 \o EncUv(Len(p.consts)) \o CatVals(p.consts)
                 \o EncUv(Len(p.positions)) \o CatUvs(p.positions)
                 \o EncUv(Len(p.lfs)) \o CatUvs(p.lfs)

\* ---- the loader on arbitrary bytes (total): "ok" iff bs is exactly one complete file. This is BclLoad's acceptance condition;
\* how the bytes arrive (read sizes) does not enter it, which is what C09 requires of the implementation.
Avail(bs, i, n) == i + n - 1 <= Len(bs)
UvOk(bs, i) == Avail(bs, i, 1) /\ Avail(bs, i, UvLen(bs[i]))
ValOk(bs, i) ==
  Avail(bs, i, 1) /\
  LET tc == bs[i] IN
  CASE tc = 0 -> TRUE
    [] tc = 1 -> UvOk(bs, i + 1)
    [] tc = 2 -> Avail(bs, i + 1, 8)
    [] tc = 3 -> UvOk(bs, i + 1) /\ Uv(bs, i + 1).v >= 0 /\ Avail(bs, i + 1 + Uv(bs, i + 1).n, Uv(bs, i + 1).v)
    [] tc = 4 -> Avail(bs, i + 1, 1)
    [] OTHER -> FALSE
RECURSIVE ValsOk(_, _, _)
ValsOk(bs, i, k) == IF k = 0 THEN [ok |-> TRUE, i |-> i] ELSE IF ~ValOk(bs, i) THEN [ok |-> FALSE, i |-> i] ELSE ValsOk(bs, i + Val(bs, i).n, k - 1)
RECURSIVE UvsOk(_, _, _)
UvsOk(bs, i, k) == IF k = 0 THEN [ok |-> TRUE, i |-> i] ELSE IF ~UvOk(bs, i) THEN [ok |-> FALSE, i |-> i] ELSE UvsOk(bs, i + Uv(bs, i).n, k - 1)
Loadable(bs) ==
  /\ Len(bs) >= 4 /\ bs[1] = 252 /\ bs[2] = 108 /\ bs[3] = 1 /\ bs[4] <= 1
  /\ UvOk(bs, 5) /\ Uv(bs, 5).v >= 0
  /\ LET nm == Uv(bs, 5) i1 == 5 + nm.n + nm.v IN
     /\ Avail(bs, 5 + nm.n, nm.v) /\ UvOk(bs, i1) /\ Uv(bs, i1).v >= 0
     /\ LET cl == Uv(bs, i1) i3 == i1 + cl.n + cl.v IN
        /\ Avail(bs, i1 + cl.n, cl.v) /\ UvOk(bs, i3) /\ Uv(bs, i3).v >= 0
        /\ LET cn == Uv(bs, i3) cs == ValsOk(bs, i3 + cn.n, cn.v) IN
           /\ cs.ok /\ UvOk(bs, cs.i) /\ Uv(bs, cs.i).v >= 0
           /\ LET pn == Uv(bs, cs.i) ps == UvsOk(bs, cs.i + pn.n, pn.v) IN
              /\ ps.ok /\ UvOk(bs, ps.i) /\ Uv(bs, ps.i).v >= 0
              /\ LET ln == Uv(bs, ps.i) ls == UvsOk(bs, ps.i + ln.n, ln.v) IN
                 ls.ok /\ ls.i = Len(bs) + 1
====
