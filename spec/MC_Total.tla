---- MODULE MC_Total ----
\* Design-level totality (MC) for C06: on the inputs of Gen_Total that are given as bytes (every short byte string over an
\* alphabet reaching every lexer state, malformed literals in every literal position, byte-level damage of base programs) the
\* whole L2 chain — L1 lexer, compiler machine, VM machine — comes to an end: a compile error, a runtime error, a result, or
\* the explicit out-of-domain mark. A stuck machine (a CASE without a branch, an index out of range, a missing continuation)
\* stops TLC with an evaluation error; a machine that does not halt exhausts the fuel and violates Ends.
EXTENDS Gen_Total
Lx == INSTANCE BclLex
C == INSTANCE BclCompiler WITH LocalsMax <- 1024, JumpMax <- 65535
M == INSTANCE BclVM WITH StackSize <- 1024, BlockStackSize <- 16
INSTANCE BclValues
ToksOf(b) == LET tk == Lx!RefTokens(b) IN
             [i \in 1..Len(tk) |-> [k |-> tk[i].k, pos |-> tk[i].pos, msg |-> tk[i].msg,
                                    text |-> IF tk[i].k \in {"ERR", "FAIL", "EOF"} THEN <<>> ELSE SubSeq(b, tk[i].from + 1, tk[i].pos)]]
ConstV(c) == CASE c.t = "int" -> IntV(c.n) [] c.t = "str" -> StrV(c.s) [] OTHER -> OodV("float-const")
RECURSIVE RunFuel(_, _)
RunFuel(s, fuel) == IF s.done THEN s ELSE IF fuel = 0 THEN s ELSE RunFuel(M!StepVM(s), fuel - 1)
Judged == Scope \in {"bytes", "literals", "damage"} /\ (Scope = "bytes" \/ phase >= 1)
Ends == Judged =>
          LET c == C!Compile(ToksOf(bs)) IN
          c.hadError \/ c.ood \/ RunFuel(M!InitVM([code |-> c.code, consts |-> [i \in 1..Len(c.consts) |-> ConstV(c.consts[i])]]), 400).done
====
