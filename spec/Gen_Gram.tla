---- MODULE Gen_Gram ----
\* GEN front end for C17: token strings over the 25 syntactic classes of BclGrammar with the L1 verdict (Derives /\ StaticOk).
\*  "all"      every string of length <= MaxLen (exhaustive)
\*  "viable"   every viable prefix of a sentence up to MaxLen tokens (grown token by token; a prefix is viable when the
\*             recogniser fails only because the input ended), and every complete sentence with one token deleted, inserted,
\*             replaced or transposed at every position; with -simulate: random sentences up to the trace depth
\*  "recover"  programs of toplevel statements, one per line, some of them broken in a way that is detectable inside the
\*             statement; every broken later statement must get a diagnostic on its own line
EXTENDS BclGrammar, Json
CONSTANTS Scope, MaxLen
\*  "assign"   the assignment rule: IDENT '=' is an assignment only at the start of an expression, of a parenthesis body or of another
\*             assignment's right side; everywhere else (after any binary or unary operator, after a parenthesised operand, after a
\*             literal) it is an invalid target: every operator of the full vocabulary x 8 templates x 4 statement contexts
VARIABLES ts, phase, must, lines
vars == <<ts, phase, must, lines>>
Init == ts = <<>> /\ phase = 0 /\ must = {} /\ lines = <<>>

GrowAll == Scope = "all" /\ Len(ts) < MaxLen /\ \E k \in Vocab : ts' = Append(ts, k) /\ UNCHANGED <<phase, must, lines>>
\* with -simulate (MaxLen > 8) the full vocabulary is used
VV == IF MaxLen > 8 THEN VocabFull ELSE Vocab
GrowViable == /\ Scope = "viable" /\ phase = 0 /\ Len(ts) < MaxLen
              /\ \E k \in VV : Viable(Append(ts, k)) /\ ts' = Append(ts, k)
              /\ UNCHANGED <<phase, must, lines>>
DropAt(s, i) == SubSeq(s, 1, i - 1) \o SubSeq(s, i + 1, Len(s))
InsAt(s, i, k) == SubSeq(s, 1, i - 1) \o <<k>> \o SubSeq(s, i, Len(s))
Mutations(s) == { DropAt(s, i) : i \in 1..Len(s) }
                  \cup { InsAt(s, i, k) : i \in 1..(Len(s) + 1), k \in VV }
                  \cup { [s EXCEPT ![i] = k] : i \in 1..Len(s), k \in VV }
                  \cup { [s EXCEPT ![i] = s[i + 1], ![i + 1] = s[i]] : i \in 1..(Len(s) - 1) }
Mutate == /\ Scope = "viable" /\ phase = 0 /\ ts # <<>> /\ Derives(ts)
          /\ \E m \in Mutations(ts) : ts' = m
          /\ phase' = 1 /\ UNCHANGED <<must, lines>>

\* ---- the assignment rule
BinToks == {"or", "and", "==", "!=", "<", "<=", ">", ">=", "+", "-", "*", "/"}
UnToks == {"not", "-", "+"}
AsgTemplates(o) == { <<"IDx", o, "IDx", "=", "INT1">>,                       \* x o x = 1        (invalid target)
                     <<"IDx", o, "(", "IDx", "=", "INT1", ")">>,              \* x o (x = 1)      (fine)
                     <<"IDx", "=", "IDx", o, "INT2">>,                        \* x = x o 2        (fine)
                     <<"IDx", "=", "IDx", o, "IDx", "=", "INT1">>,            \* x = x o x = 1    (invalid)
                     <<"(", "IDx", o, "INT1", ")", "=", "INT2">>,             \* (x o 1) = 2      (invalid)
                     <<"IDx", "=", "IDx", "=", "INT1", o, "INT2">>,           \* x = x = 1 o 2    (fine: chained)
                     <<"INT1", o, "IDx", "=", "INT2">>,                       \* 1 o x = 2        (invalid)
                     <<"(", "IDx", ")", "=", "INT1">> }                       \* (x) = 1          (invalid)
AsgTemplatesU(u) == { <<u, "IDx", "=", "INT1">>, <<u, "(", "IDx", "=", "INT1", ")">>, <<"IDx", "=", u, "IDx">>, <<"IDx", "=", u, "IDx", "=", "INT1">> }
AsgBodies == UNION { AsgTemplates(o) : o \in BinToks } \cup UNION { AsgTemplatesU(u) : u \in UnToks }
AsgCtx(b) == { <<"var", "IDx", "eval">> \o b, <<"var", "IDx", "print">> \o b, <<"var", "IDx", "var", "IDall", "=">> \o b,
               <<"def", "IDx", "{">> \o b \o <<"}">> }
PickAsg == /\ Scope = "assign" /\ phase = 0 /\ \E b \in AsgBodies : \E t \in AsgCtx(b) : ts' = t
           /\ phase' = 1 /\ UNCHANGED <<must, lines>>
\* ---- the bind statement: every token of the full vocabulary as selector and as target ("bindsel"), after one block
BindSel == /\ Scope = "bindsel" /\ phase = 0
           /\ \E sl \in VocabFull \cup {"none"}, tg \in VocabFull :
                ts' = <<"def", "IDx", "{", "}", "bind", "IDx">> \o (IF sl = "none" THEN <<>> ELSE <<":", sl>>) \o <<"->", tg>>
           /\ phase' = 1 /\ UNCHANGED <<must, lines>>
\* ---- every statement form at every nesting depth ("nest"): a statement of each kind (declarations, print / eval, bare expressions and
\* assignments, block definitions with and without a name, bind in all its forms) at toplevel and inside one, two and three
\* enclosing blocks, after a prelude that declares x and completes a block of type 'all'; between two other statements
NestForms == { <<"var", "IDfirst">>, <<"var", "IDfirst", "=", "IDx", "+", "INT1">>, <<"print", "IDx">>, <<"eval", "IDx", "=", "INT2">>,
               <<"IDx">>, <<"IDx", "=", "INT1">>, <<"IDlast", "=", "STR">>, <<"INT1", "+", "INT2">>, <<"(", "IDx", ")">>, <<"not", "IDx">>,
               <<"def", "IDslice", "{", "}">>, <<"def", "IDslice", "STR", "{", "IDlast", "=", "INT1", "}">>,
               <<"bind", "IDall", "->", "IDstruct">>, <<"bind", "IDall", ":", "INT1", "->", "IDstruct">>, <<"bind", "IDall", ":", "IDfirst", "->", "IDslice">>,
               <<"bind", "IDall", ":", "IDall", "->", "IDslice">>, <<"bind", "IDall", ":", "IDall", "->", "IDstruct">>, <<"bind", "IDall", "->", "IDx">>,
               <<"bind", "IDall", ":", "IDlast", "->", "IDstruct", ";">>, <<"}">>, <<"{", "}">>,
               <<"IDx", "=", "INT1", ";">>, <<"IDx", "=", "INT1", ";", ";">>, <<"print", "INT1", ";", ";">>, <<"var", "IDfirst", ";", ";">>, <<";">>,
               <<"def", "IDslice", "{", "}", ";", ";">>, <<"def", "IDslice", "{", "IDlast", "=", "INT1", ";", ";", "}">> }
RECURSIVE WrapDef(_, _)
WrapDef(b, d) == IF d = 0 THEN b ELSE <<"def", "IDx", "{">> \o WrapDef(b, d - 1) \o <<"}">>
PickNest == /\ Scope = "nest" /\ phase = 0
            /\ \E f \in NestForms, d \in 0..3, pre \in {<<>>, <<"print", "INT1">>}, post \in {<<>>, <<"eval", "INT2">>} :
                 ts' = <<"var", "IDx", "def", "IDall", "{", "}">> \o WrapDef(pre \o f \o post, d)
            /\ phase' = 1 /\ UNCHANGED <<must, lines>>
\* ---- comments are layout: a '#' comment up to CR, LF or the end of input may follow any token ("comments")
CmtSeps == << <<32>>, <<35, 99, 10>>, <<35, 99, 13>>, <<32, 35, 32, 41, 32, 34, 13, 10>>, <<35, 13>>, <<35, 10>> >>
GrowCmt == /\ Scope = "comments" /\ Len(ts) < MaxLen /\ \E k \in Vocab, c \in 1..Len(CmtSeps) : ts' = Append(ts, k) /\ must' = must \cup {<<Len(ts) + 1, c>>}
           /\ UNCHANGED <<phase, lines>>
SepOf(i) == IF \E c \in 1..Len(CmtSeps) : <<i, c>> \in must THEN CmtSeps[CHOOSE c \in 1..Len(CmtSeps) : <<i, c>> \in must] ELSE <<32>>
RECURSIVE SrcCmt(_, _)
SrcCmt(s, i) == IF i > Len(s) THEN <<>> ELSE Spell(s[i]) \o SepOf(i) \o SrcCmt(s, i + 1)
\* ---- recovery programs: statements as token lists; each on its own line
Good == { <<"var", "IDx">>, <<"var", "IDx", "=", "INT1">>, <<"print", "INT1", "+", "INT2">>, <<"eval", "INT2">>,
          <<"def", "IDx", "{", "IDx", "=", "INT1", "}">>, <<"print", "(", "INT1", ")", ";">> }
BrokenVEP == { <<"var", "=", "INT1">>, <<"print", ")">>, <<"eval", "*", "INT1">>, <<"print", "INT1", "INT2">>,
               <<"var", "IDx", "=", ")", ";">>, <<"eval", "(", "INT1", "}">>, <<"print", "INT1", "+", ";">> }
BrokenDef == { <<"def", "{", "}">>, <<"def", "IDx", "INT1", "{", "}">> }
\* broken because the statement stops too early, detected by a check that does not consume the offending token (a missing
\* variable name, a missing ')'): the diagnostic sits at the first token of the next line (or at the end of input) and the next
\* statement is then parsed from its keyword as usual, so a broken one still gets a diagnostic of its own
TailStop == { <<"var">>, <<"print", "(", "INT1">>, <<"eval", "(", "(", "INT2", ")">> }
\* a block left open at the end of input (only as the last statement): the missing '}' is reported at the end of input, whatever
\* was reported before
OpenDef == { <<"def", "IDx", "{", "IDx", "=", "INT1">>, <<"def", "IDx", "STR", "{">> }
Stmts == Good \cup BrokenVEP \cup BrokenDef \cup TailStop
RecGrow == /\ Scope = "recover" /\ Len(lines) < MaxLen /\ (IF lines = <<>> THEN TRUE ELSE lines[Len(lines)] \notin OpenDef)
           /\ \E s \in Stmts \cup OpenDef : lines' = Append(lines, s)
           /\ UNCHANGED <<ts, phase, must>>
\* lines that must carry a diagnostic: every broken statement up to and including the first broken def
\* minimum number of diagnostics per line, as a sequence indexed by line (one more line than statements: the end of input)
RECURSIVE MustLines(_, _, _)
MustLines(ls, i, acc) ==
  IF i > Len(ls) THEN acc
  ELSE IF ls[i] \in BrokenDef THEN [acc EXCEPT ![i] = @ + 1]
  ELSE IF ls[i] \in BrokenVEP THEN MustLines(ls, i + 1, [acc EXCEPT ![i] = @ + 1])
  ELSE IF ls[i] \in TailStop \cup OpenDef THEN MustLines(ls, i + 1, [acc EXCEPT ![i + 1] = @ + 1])
  ELSE MustLines(ls, i + 1, acc)
Zeros(n) == [i \in 1..n |-> 0]
Next == GrowAll \/ GrowViable \/ Mutate \/ RecGrow \/ PickAsg \/ BindSel \/ GrowCmt \/ PickNest
Spec == Init /\ [][Next]_vars

RECURSIVE SrcLines(_)
SrcLines(ls) == IF ls = <<>> THEN <<>> ELSE Src(Head(ls)) \o <<10>> \o SrcLines(Tail(ls))
RECURSIVE Flat(_)
Flat(ls) == IF ls = <<>> THEN <<>> ELSE Head(ls) \o Flat(Tail(ls))
RECURSIVE SetToSeq(_)
SetToSeq(S) == IF S = {} THEN <<>> ELSE LET m == CHOOSE x \in S : \A y \in S : x <= y IN <<m>> \o SetToSeq(S \ {m})
Emit == (Scope # "recover" /\ (Scope \notin {"assign", "bindsel", "nest"} \/ phase = 1)) =>
        PrintT(<<"CASE", ToJson([fam |-> "gram", src |-> IF Scope = "comments" THEN SrcCmt(ts, 1) ELSE Src(ts), acc |-> Accepts(ts), der |-> Derives(ts), n |-> Len(ts),
                                   mut |-> (phase = 1), must |-> <<>>])>>)
EmitR == (Scope = "recover" /\ lines # <<>>) =>
         PrintT(<<"CASE", ToJson([fam |-> "gram", src |-> SrcLines(lines), acc |-> Accepts(Flat(lines)), der |-> Derives(Flat(lines)),
                                   n |-> Len(Flat(lines)), mut |-> FALSE, must |-> MustLines(lines, 1, Zeros(Len(lines) + 1))])>>)
\* L1 sanity (MC): a statement list that is all Good is accepted
GoodOk == (lines # <<>> /\ \A i \in 1..Len(lines) : lines[i] \in Good /\ lines[i][1] # "var") => Derives(Flat(lines))
\* the assignment rule at L1 (MC): what the comments of AsgTemplates say
AsgOk == (Scope = "assign" /\ phase = 1) =>
           LET body == IF ts[1] = "def" THEN SubSeq(ts, 4, Len(ts) - 1) ELSE IF ts[3] = "var" THEN SubSeq(ts, 6, Len(ts)) ELSE SubSeq(ts, 4, Len(ts)) IN
           (\E o \in BinToks : body \in { <<"IDx", o, "IDx", "=", "INT1">>, <<"INT1", o, "IDx", "=", "INT2">>, <<"(", "IDx", o, "INT1", ")", "=", "INT2">> }) => ~Derives(ts)
====
