---- MODULE Gen_Gram ----
\* GEN front end for C17: token strings over the 25 syntactic classes of BclGrammar with the L1 verdict (Derives /\ StaticOk).
\*  "all"      every string of length <= MaxLen (exhaustive)
\*  "viable"   every viable prefix of a sentence up to MaxLen tokens (grown token by token; a prefix is viable when the
\*             recogniser fails only because the input ended), and every complete sentence with one token deleted, inserted,
\*             replaced or transposed at every position; with -simulate: random sentences up to the trace depth
\*  "recover"  programs of toplevel statements, one per line, some of them broken in a way that is detectable inside the
\*             statement; every broken later statement must get a diagnostic on its own line
EXTENDS BclGrammar, Json
CONSTANTS Scope, MaxLen
VARIABLES ts, phase, must, lines
vars == <<ts, phase, must, lines>>
Init == ts = <<>> /\ phase = 0 /\ must = {} /\ lines = <<>>

GrowAll == Scope = "all" /\ Len(ts) < MaxLen /\ \E k \in Vocab : ts' = Append(ts, k) /\ UNCHANGED <<phase, must, lines>>
GrowViable == /\ Scope = "viable" /\ phase = 0 /\ Len(ts) < MaxLen
              /\ \E k \in Vocab : Viable(Append(ts, k)) /\ ts' = Append(ts, k)
              /\ UNCHANGED <<phase, must, lines>>
DropAt(s, i) == SubSeq(s, 1, i - 1) \o SubSeq(s, i + 1, Len(s))
InsAt(s, i, k) == SubSeq(s, 1, i - 1) \o <<k>> \o SubSeq(s, i, Len(s))
Mutations(s) == { DropAt(s, i) : i \in 1..Len(s) }
                  \cup { InsAt(s, i, k) : i \in 1..(Len(s) + 1), k \in Vocab }
                  \cup { [s EXCEPT ![i] = k] : i \in 1..Len(s), k \in Vocab }
                  \cup { [s EXCEPT ![i] = s[i + 1], ![i + 1] = s[i]] : i \in 1..(Len(s) - 1) }
Mutate == /\ Scope = "viable" /\ phase = 0 /\ ts # <<>> /\ Derives(ts)
          /\ \E m \in Mutations(ts) : ts' = m
          /\ phase' = 1 /\ UNCHANGED <<must, lines>>

\* ---- recovery programs: statements as token lists; each on its own line
Good == { <<"var", "IDx">>, <<"var", "IDx", "=", "INT1">>, <<"print", "INT1", "+", "INT2">>, <<"eval", "INT2">>,
          <<"def", "IDx", "{", "IDx", "=", "INT1", "}">>, <<"print", "(", "INT1", ")", ";">> }
BrokenVEP == { <<"var", "=", "INT1">>, <<"print", ")">>, <<"eval", "*", "INT1">>, <<"print", "INT1", "INT2">>,
               <<"var", "IDx", "=", ")", ";">>, <<"eval", "(", "INT1", "}">>, <<"print", "INT1", "+", ";">> }
BrokenDef == { <<"def", "{", "}">>, <<"def", "IDx", "INT1", "{", "}">> }
Stmts == Good \cup BrokenVEP \cup BrokenDef
RecGrow == /\ Scope = "recover" /\ Len(lines) < MaxLen
           /\ \E s \in Stmts : lines' = Append(lines, s)
           /\ UNCHANGED <<ts, phase, must>>
\* lines that must carry a diagnostic: every broken statement up to and including the first broken def
RECURSIVE MustLines(_, _, _)
MustLines(ls, i, acc) ==
  IF i > Len(ls) THEN acc
  ELSE IF ls[i] \in BrokenDef THEN acc \cup {i}
  ELSE IF ls[i] \in BrokenVEP THEN MustLines(ls, i + 1, acc \cup {i})
  ELSE MustLines(ls, i + 1, acc)
Next == GrowAll \/ GrowViable \/ Mutate \/ RecGrow
Spec == Init /\ [][Next]_vars

RECURSIVE SrcLines(_)
SrcLines(ls) == IF ls = <<>> THEN <<>> ELSE Src(Head(ls)) \o <<10>> \o SrcLines(Tail(ls))
RECURSIVE Flat(_)
Flat(ls) == IF ls = <<>> THEN <<>> ELSE Head(ls) \o Flat(Tail(ls))
RECURSIVE SetToSeq(_)
SetToSeq(S) == IF S = {} THEN <<>> ELSE LET m == CHOOSE x \in S : \A y \in S : x <= y IN <<m>> \o SetToSeq(S \ {m})
Emit == Scope # "recover" => PrintT(<<"CASE", ToJson([fam |-> "gram", src |-> Src(ts), acc |-> Accepts(ts), der |-> Derives(ts), n |-> Len(ts),
                                   mut |-> (phase = 1), must |-> <<>>])>>)
EmitR == (Scope = "recover" /\ lines # <<>>) =>
         PrintT(<<"CASE", ToJson([fam |-> "gram", src |-> SrcLines(lines), acc |-> Accepts(Flat(lines)), der |-> Derives(Flat(lines)),
                                   n |-> Len(Flat(lines)), mut |-> FALSE, must |-> SetToSeq(MustLines(lines, 1, {}))])>>)
\* L1 sanity (MC): a statement list that is all Good is accepted
GoodOk == (lines # <<>> /\ \A i \in 1..Len(lines) : lines[i] \in Good /\ lines[i][1] # "var") => Derives(Flat(lines))
====
