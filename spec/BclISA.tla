---- MODULE BclISA ----
\* The instruction set of format version 1.1 as one table: numbering, operand kinds, stack effects (C10, C14, C19).
\* Shared by the VM machine, the all-paths exploration, the disassembly model and the format checks.
EXTENDS BclFormat, TLC
OpName == << "NOP", "RET", "PRINT", "SETLOCAL", "GETLOCAL", "DEFBLOCK", "ENDBLOCK", "SETFIELD", "GETFIELD", "CONST",
             "NIL", "ZERO", "ONE", "TRUE", "FALSE", "NOT", "EQ", "LT", "GT", "ADD", "SUB", "MUL", "DIV", "NEG", "UNPLUS",
             "JUMP", "LOOP", "JFALSE", "POP", "POPN", "BIND" >>
OpCode(nm) == CHOOSE i \in 0..(Len(OpName) - 1) : OpName[i + 1] = nm
\* decode the instruction at 0-based offset off: [op, a, b, len]
Instr(code, off) ==
  LET o == code[off + 1] nm == IF o < Len(OpName) THEN OpName[o + 1] ELSE "BAD" IN
  CASE nm \in {"CONST", "GETFIELD", "SETFIELD", "GETLOCAL", "SETLOCAL", "POPN"} ->
         LET u == Uv(code, off + 2) IN [op |-> nm, a |-> u.v, b |-> 0, len |-> 1 + u.n]
    [] nm = "DEFBLOCK" -> LET u == Uv(code, off + 2) w == Uv(code, off + 2 + u.n) IN [op |-> nm, a |-> u.v, b |-> w.v, len |-> 1 + u.n + w.n]
    [] nm \in {"JUMP", "JFALSE", "LOOP"} -> [op |-> nm, a |-> code[off + 2] * 256 + code[off + 3], b |-> 0, len |-> 3]
    [] nm = "BIND" -> LET u == Uv(code, off + 2) IN [op |-> nm, a |-> u.v, b |-> code[off + 2 + u.n], len |-> 2 + u.n]
    [] OTHER -> [op |-> nm, a |-> 0, b |-> 0, len |-> 1]
\* does the instruction at off fit into the code (operands included)?
Fits(code, off) ==
  /\ off < Len(code)
  /\ LET o == code[off + 1] nm == IF o < Len(OpName) THEN OpName[o + 1] ELSE "BAD" IN
     CASE nm \in {"CONST", "GETFIELD", "SETFIELD", "GETLOCAL", "SETLOCAL", "POPN"} -> UvOk(code, off + 2)
       [] nm = "DEFBLOCK" -> UvOk(code, off + 2) /\ UvOk(code, off + 2 + Uv(code, off + 2).n)
       [] nm \in {"JUMP", "JFALSE", "LOOP"} -> off + 3 <= Len(code)
       [] nm = "BIND" -> UvOk(code, off + 2) /\ off + 2 + Uv(code, off + 2).n <= Len(code)
       [] OTHER -> TRUE
\* Forth-style stack effect and the operand depth an instruction needs
Effect(ins) == CASE ins.op \in {"CONST", "NIL", "ZERO", "ONE", "TRUE", "FALSE", "GETLOCAL", "GETFIELD"} -> 1
                 [] ins.op \in {"EQ", "LT", "GT", "ADD", "SUB", "MUL", "DIV", "POP", "PRINT"} -> -1
                 [] ins.op = "POPN" -> -ins.a
                 [] OTHER -> 0
NeedsDepth(ins) == CASE ins.op \in {"EQ", "LT", "GT", "ADD", "SUB", "MUL", "DIV"} -> 2
                     [] ins.op \in {"NOT", "NEG", "UNPLUS", "JFALSE", "POP", "PRINT", "SETLOCAL", "SETFIELD"} -> 1
                     [] ins.op = "POPN" -> ins.a [] OTHER -> 0
RECURSIVE Boundaries(_, _, _)
Boundaries(code, off, acc) == IF off >= Len(code) \/ ~Fits(code, off) THEN acc ELSE Boundaries(code, off + Instr(code, off).len, acc \cup {off})
\* offset just past the last decodable instruction (= Len(code) iff the instructions tile the code exactly)
RECURSIVE TileEnd(_, _)
TileEnd(code, off) == IF off >= Len(code) \/ ~Fits(code, off) THEN off ELSE TileEnd(code, off + Instr(code, off).len)
\* ---- well-formedness of one instruction reached with operand depth d and block depth b (C10)
IsStr(p, i) == i >= 0 /\ i < Len(p.consts) /\ p.consts[i + 1].t = "str"
InstrOk(p, pc, d, b) ==
  LET code == p.code ins == Instr(code, pc) IN
  /\ ins.op # "BAD"
  /\ d >= NeedsDepth(ins) /\ b >= 0
  /\ ins.op \in {"GETLOCAL", "SETLOCAL"} => ins.a >= 0 /\ ins.a < d
  /\ ins.op = "CONST" => ins.a >= 0 /\ ins.a < Len(p.consts)
  /\ ins.op \in {"GETFIELD", "SETFIELD", "BIND"} => IsStr(p, ins.a)
  /\ ins.op = "DEFBLOCK" => IsStr(p, ins.a) /\ IsStr(p, ins.b)
  /\ ins.op = "BIND" => (ins.b % 16) \in {1, 2, 3, 15} /\ (ins.b - (ins.b % 16)) \in {16, 32} /\ ~((ins.b % 16) = 15 /\ ins.b - 15 = 16)
  /\ ins.op = "RET" => d = 0 /\ b = 0 /\ pc + 1 = Len(code)
  /\ ins.op \in {"GETFIELD", "SETFIELD", "ENDBLOCK"} => b >= 1
\* forward data flow: the (depth, bdepth) with which each offset is first reached; the invariant Unique then demands that every
\* path reaches it with exactly these
Succ(code, w) ==
  LET ins == Instr(code, w.pc)
      d2 == w.d + Effect(ins)
      b2 == w.b + (IF ins.op = "DEFBLOCK" THEN 1 ELSE IF ins.op = "ENDBLOCK" THEN -1 ELSE 0)
      nx == w.pc + ins.len IN
  CASE ins.op = "RET" -> <<>>
    [] ins.op = "JUMP" -> << [pc |-> nx + ins.a, d |-> d2, b |-> b2] >>
    [] ins.op = "LOOP" -> << [pc |-> nx - ins.a, d |-> d2, b |-> b2] >>
    [] ins.op = "JFALSE" -> << [pc |-> nx, d |-> d2, b |-> b2], [pc |-> nx + ins.a, d |-> d2, b |-> b2] >>
    [] OTHER -> << [pc |-> nx, d |-> d2, b |-> b2] >>
RECURSIVE Flow(_, _, _, _)
Flow(code, B, work, map) ==
  IF work = <<>> THEN map
  ELSE LET w == Head(work) IN
       IF w.pc \in DOMAIN map \/ w.pc \notin B THEN Flow(code, B, Tail(work), map)
       ELSE Flow(code, B, Tail(work) \o Succ(code, w), map @@ (w.pc :> [d |-> w.d, b |-> w.b]))
\* a whole program is well-formed along every path (the pure-function form of the exploration in Trace_Dumps)
PathsOk(p) ==
  /\ p.code # <<>> /\ TileEnd(p.code, 0) = Len(p.code)
  /\ LET B == Boundaries(p.code, 0, {})
         m == Flow(p.code, B, << [pc |-> 0, d |-> 0, b |-> 0] >>, <<>>) IN
     \A pc \in DOMAIN m :
        /\ InstrOk(p, pc, m[pc].d, m[pc].b)
        /\ LET ss == Succ(p.code, [pc |-> pc, d |-> m[pc].d, b |-> m[pc].b]) IN
           \A i \in 1..Len(ss) : ss[i].pc \in DOMAIN m /\ m[ss[i].pc].d = ss[i].d /\ m[ss[i].pc].b = ss[i].b
====
