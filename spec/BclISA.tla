---- MODULE BclISA ----
\* The instruction set of format version 1.1 as one table: numbering, operand kinds, stack effects (C10, C14, C19).
\* Shared by the VM machine, the all-paths exploration, the disassembly model and the format checks.
EXTENDS BclFormat
OpName == << "NOP", "RET", "PRINT", "SETLOCAL", "GETLOCAL", "DEFBLOCK", "ENDBLOCK", "SETFIELD", "GETFIELD", "CONST",
             "NIL", "ZERO", "ONE", "TRUE", "FALSE", "NOT", "EQ", "LT", "GT", "ADD", "SUB", "MUL", "DIV", "NEG", "UNPLUS",
             "JUMP", "LOOP", "JFALSE", "POP", "POPN", "BIND" >>
OpCode(nm) == CHOOSE i \in 0..(Len(OpName) - 1) : OpName[i + 1] = nm
\* decode the instruction at 0-based offset off: [op, a, b, len]
Instr(code, off) ==
  LET o == code[off + 1] nm == IF o < Len(OpName) THEN OpName[o + 1] ELSE "BAD" IN
  CASE nm \in {"CONST", "GETFIELD", "SETFIELD", "GETLOCAL", "SETLOCAL", "POPN"} ->
         LET u == Uv(code, off + 2) IN [op |-> nm, a |-> u.v, b |-> 0, len |-> 1 + u.n]
    [] nm = "DEFBLOCK" -> LET u == Uv(code, off + 2) w == Uv(code, off + 2 + u.n) IN [op |-> nm, a |-> u.v, b |-> w.v, len |-> 1 + u.n + w.n]
    [] nm \in {"JUMP", "JFALSE", "LOOP"} -> [op |-> nm, a |-> code[off + 2] * 256 + code[off + 3], b |-> 0, len |-> 3]
    [] nm = "BIND" -> LET u == Uv(code, off + 2) IN [op |-> nm, a |-> u.v, b |-> code[off + 2 + u.n], len |-> 2 + u.n]
    [] OTHER -> [op |-> nm, a |-> 0, b |-> 0, len |-> 1]
\* does the instruction at off fit into the code (operands included)?
Fits(code, off) ==
  /\ off < Len(code)
  /\ LET o == code[off + 1] nm == IF o < Len(OpName) THEN OpName[o + 1] ELSE "BAD" IN
     CASE nm \in {"CONST", "GETFIELD", "SETFIELD", "GETLOCAL", "SETLOCAL", "POPN"} -> UvOk(code, off + 2)
       [] nm = "DEFBLOCK" -> UvOk(code, off + 2) /\ UvOk(code, off + 2 + Uv(code, off + 2).n)
       [] nm \in {"JUMP", "JFALSE", "LOOP"} -> off + 3 <= Len(code)
       [] nm = "BIND" -> UvOk(code, off + 2) /\ off + 2 + Uv(code, off + 2).n <= Len(code)
       [] OTHER -> TRUE
\* Forth-style stack effect and the operand depth an instruction needs
Effect(ins) == CASE ins.op \in {"CONST", "NIL", "ZERO", "ONE", "TRUE", "FALSE", "GETLOCAL", "GETFIELD"} -> 1
                 [] ins.op \in {"EQ", "LT", "GT", "ADD", "SUB", "MUL", "DIV", "POP", "PRINT"} -> -1
                 [] ins.op = "POPN" -> -ins.a
                 [] OTHER -> 0
NeedsDepth(ins) == CASE ins.op \in {"EQ", "LT", "GT", "ADD", "SUB", "MUL", "DIV"} -> 2
                     [] ins.op \in {"NOT", "NEG", "UNPLUS", "JFALSE", "POP", "PRINT", "SETLOCAL", "SETFIELD"} -> 1
                     [] ins.op = "POPN" -> ins.a [] OTHER -> 0
RECURSIVE Boundaries(_, _, _)
Boundaries(code, off, acc) == IF off >= Len(code) \/ ~Fits(code, off) THEN acc ELSE Boundaries(code, off + Instr(code, off).len, acc \cup {off})
\* offset just past the last decodable instruction (= Len(code) iff the instructions tile the code exactly)
RECURSIVE TileEnd(_, _)
TileEnd(code, off) == IF off >= Len(code) \/ ~Fits(code, off) THEN off ELSE TileEnd(code, off + Instr(code, off).len)
====
