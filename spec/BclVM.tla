---- MODULE BclVM ----
\* L2: machine.go as a Step-function machine over a program [code, consts] (consts are BclValues values).
\* One StepVM per executed instruction; RunVM iterates it. Limits are constants with *error* outcomes.
EXTENDS BclISA, FiniteSets
CONSTANTS StackSize, BlockStackSize
EmptyB == <<>>
Ent(k, kind, v, b) == [k |-> k, kind |-> kind, v |-> v, b |-> b]
RECURSIVE FindEnt(_, _, _)
FindEnt(ents, k, i) == IF i = 0 THEN 0 ELSE IF ents[i].k = k THEN i ELSE FindEnt(ents, k, i - 1)
RECURSIVE FindField(_, _, _)
FindField(blocks, k, i) == IF i = 0 THEN <<0, 0>> ELSE LET j == FindEnt(blocks[i].ents, k, Len(blocks[i].ents)) IN
                           IF j > 0 THEN <<i, j>> ELSE FindField(blocks, k, i - 1)
TYPEs == <<84, 89, 80, 69>>
NAMEs == <<78, 65, 77, 69>>
NoBind == [kind |-> "none", blocks |-> <<>>]
InitVM(prog) == [prog |-> prog, pc |-> 0, stack |-> <<>>, blocks |-> <<>>, result |-> <<>>, binding |-> NoBind, out |-> <<>>, warn |-> 0,
                 err |-> [kind |-> "", a |-> <<>>, n |-> 0, txt |-> ""], ood |-> FALSE, done |-> FALSE, ops |-> 0, tosMax |-> 0, blockTosMax |-> 0]
E(kind, a, n, txt) == [kind |-> kind, a |-> a, n |-> n, txt |-> txt]
Top(s) == s.stack[Len(s.stack)]
Pop(s, n) == SubSeq(s.stack, 1, Len(s.stack) - n)
Halt(s, e) == [s EXCEPT !.err = e, !.done = TRUE]
PushV(n, s, v) ==
  IF v.t = "ood" THEN [s EXCEPT !.ood = TRUE, !.done = TRUE]
  ELSE IF v.t = "err" THEN Halt(s, E("op", <<>>, 0, v.e))
  ELSE IF Len(n.stack) >= StackSize THEN Halt(s, E("stack-overflow", <<>>, 0, ""))
  ELSE [n EXCEPT !.stack = Append(n.stack, v), !.tosMax = IF Len(n.stack) + 1 > @ THEN Len(n.stack) + 1 ELSE @]
StepVM(s0) ==
  LET s == [s0 EXCEPT !.ops = @ + 1]
      ins == Instr(s.prog.code, s.pc)  op == ins.op
      n == [s EXCEPT !.pc = s.pc + ins.len]
      C(i) == s.prog.consts[i + 1] IN
  CASE op = "CONST" -> PushV(n, s, C(ins.a))
    [] op = "NIL" -> PushV(n, s, NilV) [] op = "ZERO" -> PushV(n, s, IntV(0)) [] op = "ONE" -> PushV(n, s, IntV(1))
    [] op = "TRUE" -> PushV(n, s, BoolV(TRUE)) [] op = "FALSE" -> PushV(n, s, BoolV(FALSE))
    [] op \in {"EQ", "LT", "GT", "ADD", "SUB", "MUL", "DIV"} ->
         PushV([n EXCEPT !.stack = Pop(s, 2)], s, BinOp(op, s.stack[Len(s.stack) - 1], Top(s)))
    [] op = "NEG" -> PushV([n EXCEPT !.stack = Pop(s, 1)], s, Neg(Top(s)))
    [] op = "UNPLUS" -> PushV([n EXCEPT !.stack = Pop(s, 1)], s, UnPlus(Top(s)))
    [] op = "NOT" -> [n EXCEPT !.stack = Append(Pop(s, 1), Not(Top(s)))]
    [] op = "JUMP" -> [n EXCEPT !.pc = s.pc + ins.len + ins.a]
    [] op = "LOOP" -> [n EXCEPT !.pc = s.pc + ins.len - ins.a]
    [] op = "JFALSE" -> IF Falsey(Top(s)) THEN [n EXCEPT !.pc = s.pc + ins.len + ins.a] ELSE n
    [] op = "POP" -> [n EXCEPT !.stack = Pop(s, 1)]
    [] op = "POPN" -> [n EXCEPT !.stack = Pop(s, ins.a)]
    [] op = "PRINT" -> (LET p == PrintOf(Top(s)) IN
                        IF ~p.ok THEN [s EXCEPT !.ood = TRUE, !.done = TRUE] ELSE [n EXCEPT !.stack = Pop(s, 1), !.out = Append(@, p.s)])
    [] op = "GETLOCAL" -> PushV(n, s, s.stack[ins.a + 1])
    [] op = "SETLOCAL" -> [n EXCEPT !.stack[ins.a + 1] = Top(s)]
    [] op = "DEFBLOCK" -> IF Len(s.blocks) >= BlockStackSize THEN Halt(s, E("block-overflow", <<>>, 0, ""))
                          ELSE [n EXCEPT !.blocks = Append(@, [type |-> C(ins.a).s, name |-> C(ins.b).s, ents |-> <<>>]),
                                         !.blockTosMax = IF Len(s.blocks) + 1 > @ THEN Len(s.blocks) + 1 ELSE @]
    [] op = "ENDBLOCK" ->
         (LET d == Len(s.blocks) b == s.blocks[d]
              key == IF b.name = <<>> THEN b.type ELSE b.type \o <<46>> \o b.name IN
          IF d = 1 THEN [n EXCEPT !.blocks = <<>>, !.result = Append(@, b)]
          ELSE IF FindEnt(s.blocks[d - 1].ents, key, Len(s.blocks[d - 1].ents)) > 0 THEN Halt(s, E("child-duplicate", key, 0, ""))
          ELSE [n EXCEPT !.blocks = [SubSeq(s.blocks, 1, d - 1) EXCEPT ![d - 1].ents = Append(@, Ent(key, "blk", NilV, <<b>>))]])
    [] op = "GETFIELD" ->
         (LET k == C(ins.a).s IN
          IF k = TYPEs THEN PushV(n, s, StrV(s.blocks[Len(s.blocks)].type))
          ELSE IF k = NAMEs THEN PushV(n, s, StrV(s.blocks[Len(s.blocks)].name))
          ELSE LET p == FindField(s.blocks, k, Len(s.blocks)) IN
               IF p[1] = 0 THEN Halt(s, E("unresolved", k, 0, ""))
               ELSE IF s.blocks[p[1]].ents[p[2]].kind = "blk" THEN [s EXCEPT !.ood = TRUE, !.done = TRUE]
               ELSE PushV(n, s, s.blocks[p[1]].ents[p[2]].v))
    [] op = "SETFIELD" ->
         (LET k == C(ins.a).s d == Len(s.blocks) j == FindEnt(s.blocks[d].ents, k, Len(s.blocks[d].ents)) IN
          IF j > 0 THEN [n EXCEPT !.blocks[d].ents[j] = Ent(k, "val", Top(s), EmptyB)]
          ELSE [n EXCEPT !.blocks[d].ents = Append(@, Ent(k, "val", Top(s), EmptyB))])
    [] op = "BIND" ->
         (LET ty == C(ins.a).s  sel == ins.b % 16  tgt == ins.b - sel
              w == IF s.binding.kind # "none" THEN [n EXCEPT !.warn = @ + 1] ELSE n
              c == SelectSeq(s.result, LAMBDA b : b.type = ty) IN
          IF c = <<>> THEN Halt(w, E("bind-none", ty, 0, ""))
          ELSE IF sel = 1 /\ Len(c) # 1 THEN Halt(w, E("bind-count", ty, Len(c), ""))
          ELSE IF tgt \notin {16, 32} \/ sel \notin {1, 2, 3, 15} \/ (sel = 15 /\ tgt = 16) THEN Halt(w, E("bind-invalid", ty, ins.b, ""))
          ELSE [w EXCEPT !.binding = [kind |-> IF tgt = 16 THEN "struct" ELSE "slice",
                                      blocks |-> CASE sel \in {1, 2} -> <<c[1]>> [] sel = 3 -> <<c[Len(c)]>> [] sel = 15 -> c]])
    [] op = "RET" -> IF s.stack = <<>> THEN [s EXCEPT !.done = TRUE] ELSE Halt(s, E("nonempty-stack", <<>>, Len(s.stack), ""))
    [] op = "NOP" -> n
    [] OTHER -> Halt(s, E("bad-opcode", <<>>, 0, op))
RECURSIVE RunVM(_)
RunVM(s) == IF s.done THEN s ELSE RunVM(StepVM(s))
====
