---- MODULE Gen_Sched ----
\* GEN front end for steered schedules (C11, C12): a behaviour of BclPipeline *with its interleaving*. The history variable
\* records every action taken (and the variant the harness needs to know how many hook points the real goroutine passes);
\* at quiescence the schedule is printed with the outcome this very schedule has. The harness replays it by holding the real
\* goroutines at their hook points (the sink blocks) and releasing them in the recorded order: the outcome is then exact.
EXTENDS BclPipeline, Json
VARIABLE hist
svars == <<vars, hist>>
H3(a, v, n) == hist' = Append(hist, [a |-> a, v |-> v, n |-> n])
H(a, v) == H3(a, v, "")
SInit == Init /\ hist = <<>>
ChunkKind == IF chunk.n = 0 THEN "empty" ELSE IF chunk.toks > 0 THEN "tok" ELSE IF chunk.fail THEN "fail" ELSE "blank"
EmitKind == IF lbuf > 0 THEN (IF lbad /\ lbuf = 1 THEN "bad" ELSE "tok") ELSE IF lfail THEN "fail" ELSE "idle"
\* after this emission the lexer is at: another token / the failure token / its next receive
EmitNext == IF lbuf > 1 THEN "tok" ELSE IF lbuf = 1 /\ lfail THEN "fail" ELSE IF lbuf = 1 THEN "need" ELSE IF lfail THEN "closed" ELSE "need"
SNext == \/ RRead /\ H("RRead", "")
         \/ RSendRerr /\ H("RSendRerr", rpc)
         \/ RSeeDone /\ H("RSeeDone", "")
         \/ Chunk /\ H3("Chunk", ChunkKind, IF ChunkKind \in {"empty", "blank"} THEN "need" ELSE ChunkKind)
         \/ RCloseInpc /\ H("RCloseInpc", "")
         \/ RClose /\ H("RClose", "")
         \/ LEmit /\ H3("LEmit", EmitKind, EmitNext)
         \/ LSeeClosed /\ H("LSeeClosed", "")
         \/ LEof /\ H("LEof", "")
         \/ LCloseTok /\ H("LCloseTok", "")
         \/ PRecv /\ H("PRecv", Head(tokens))
         \/ PDrain /\ H("PDrain", "")
         \/ PCloseDone /\ H("PCloseDone", "")
         \/ PSendPerr /\ H("PSendPerr", "")
SSpec == SInit /\ [][SNext]_svars
ScriptJ(s) == [i \in 1..Len(s) |-> [n |-> s[i].n, e |-> s[i].e, toks |-> s[i].toks, bad |-> s[i].bad, fail |-> s[i].fail]]
Emit == Quiescent => PrintT(<<"CASE", ToJson([fam |-> "sched", script |-> ScriptJ(script0), sched |-> hist, ret |-> Ret, closes |-> closeCount,
                                              reads |-> reads, rafter |-> readsAfterFail, nt |-> (Len(script0) >= 2)])>>)
====
