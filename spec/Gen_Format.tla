---- MODULE Gen_Format ----
\* MC + GEN front end for C09 / C13 / C14.
\*  "mc"      design level: over program records built from small pools (names, code, constants of every kind incl. opaque 9-byte
\*            ints, positions across the 1..4 byte varint classes, line tables): EncodeProg is decodable to the same parts, is
\*            Loadable, every proper prefix is not Loadable (the format is prefix-free), every uvarint is canonical.
\*  "header"  all 2^16 magic values and all 2^16 version byte pairs with the required verdict
\*  "sizes"   scaling-law programs: one string constant / identifier / program name / padding of n bytes for every n around the
\*            varint size classes and the 4096-byte buffers, under delivery patterns of the dump (all at once, one byte per
\*            read, cyclic read sizes)
EXTENDS BclISA, FiniteSets, Json
CONSTANTS Scope, MaxConsts
RECURSIVE SetToSeq(_)
SetToSeq(S) == IF S = {} THEN <<>> ELSE LET m == CHOOSE x \in S : \A y \in S : x <= y IN <<m>> \o SetToSeq(S \ {m})
VARIABLES phase, p, h, sz
vars == <<phase, p, h, sz>>
NoP == [minor |-> 1, name |-> <<>>, code |-> <<>>, consts |-> <<>>, positions |-> <<>>, lfs |-> <<>>]
Init == phase = 0 /\ p = NoP /\ h = <<252, 108, 1, 1>> /\ sz = [kind |-> "", n |-> 0, pat |-> <<>>]

R(t, i, raw) == [t |-> t, i |-> i, raw |-> raw]
ConstPool == { R("nil", 0, <<>>), R("int", 0, <<>>), R("int", 240, <<>>), R("int", 241, <<>>), R("int", 2287, <<>>), R("int", 2288, <<>>),
               R("int", 67823, <<>>), R("int", 67824, <<>>), R("int", 16777215, <<>>),
               R("int", -1, <<255, 255, 255, 255, 255, 255, 255, 255, 255>>),       \* -1 as two's complement: opaque
               R("int", -1, <<251, 1, 0, 0, 0>>),                                   \* 2^24 in the 5-byte class, canonical
               R("float", 0, <<63, 248, 0, 0, 0, 0, 0, 0>>), R("float", 0, <<127, 239, 255, 255, 255, 255, 255, 255>>),
               R("str", 0, <<>>), R("str", 0, <<97>>), R("str", 0, <<195, 169, 0, 255>>), R("bool", 0, <<>>), R("bool", 1, <<>>) }
Names == { <<>>, <<97>>, <<105, 110, 46, 98, 99, 108>> }
Codes == { <<1>>, <<12, 2, 1>>, <<9, 0, 2, 1>>, <<25, 0, 1, 1, 26, 0, 4>> }
PosPool == { 0, 240, 241, 2287, 2288, 67823, 67824 }
Lfss == { <<>>, <<0>>, <<3, 240, 241>>, <<2287, 2288, 67823, 67824, 16777215>> }
PickName == phase = 0 /\ Scope = "mc" /\ \E n \in Names, m \in {0, 1} : p' = [p EXCEPT !.name = n, !.minor = m] /\ phase' = 1 /\ UNCHANGED <<h, sz>>
PickCode == phase = 1 /\ Scope = "mc" /\ \E c \in Codes, q \in PosPool : p' = [p EXCEPT !.code = c, !.positions = [i \in 1..Len(c) |-> q]] /\ phase' = 2 /\ UNCHANGED <<h, sz>>
PickConst == phase \in 2..(1 + MaxConsts) /\ Scope = "mc" /\ \E c \in ConstPool : p' = [p EXCEPT !.consts = Append(@, c)] /\ phase' = phase + 1 /\ UNCHANGED <<h, sz>>
PickLfs == phase \in {2, 3, 4} /\ Scope = "mc" /\ \E l \in Lfss : p' = [p EXCEPT !.lfs = l] /\ phase' = 9 /\ UNCHANGED <<h, sz>>

HMagic1 == phase = 0 /\ Scope = "header" /\ \E b \in 0..255 : h' = [h EXCEPT ![1] = b] /\ phase' = 1 /\ UNCHANGED <<p, sz>>
HMagic2 == phase = 1 /\ Scope = "header" /\ \E b \in 0..255 : h' = [h EXCEPT ![2] = b] /\ phase' = 9 /\ UNCHANGED <<p, sz>>
HVer1 == phase = 0 /\ Scope = "header" /\ \E b \in 0..255 : h' = [h EXCEPT ![3] = b] /\ phase' = 2 /\ UNCHANGED <<p, sz>>
HVer2 == phase = 2 /\ Scope = "header" /\ \E b \in 0..255 : h' = [h EXCEPT ![4] = b] /\ phase' = 9 /\ UNCHANGED <<p, sz>>

Sizes == { 0, 1, 84, 85, 86, 87, 88, 94, 95, 96, 97, 98, 239, 240, 241, 242, 2286, 2287, 2288, 2289, 4090, 4091, 4092, 4093, 4094, 4095, 4096, 4097, 4098, 8191, 8192, 8193, 67823, 67824 }
Pats == { <<>>, <<1>>, <<2>>, <<3, 1>>, <<7>>, <<4095, 2>>, <<4096>>, <<4097>>, <<9, 8, 1>> }   \* <<>> = everything in one read
SKind == phase = 0 /\ Scope = "sizes" /\ \E kd \in {"strconst", "strconst2", "ident", "name", "noname", "offset", "comment", "lastlf", "code", "lines", "blank", "rawstr"} : sz' = [sz EXCEPT !.kind = kd] /\ phase' = 1 /\ UNCHANGED <<p, h>>
SSize == phase = 1 /\ Scope = "sizes" /\ \E n \in Sizes, pt \in Pats : sz' = [sz EXCEPT !.n = n, !.pat = pt] /\ phase' = 9 /\ UNCHANGED <<p, h>>
\* "parts": files assembled by the specification delivered under *every* partition into reads (tiny file) or every partition with
\* <= 3 cuts (a file with a constant of every kind): C09's "however the reader hands over the bytes"
Tiny == [minor |-> 1, name |-> <<97>>, code |-> <<12, 2, 1>>, consts |-> <<>>, positions |-> <<7, 7, 7>>, lfs |-> <<7>>]
Rich == [minor |-> 1, name |-> <<105, 110>>, code |-> <<9, 0, 2, 9, 1, 2, 9, 3, 28, 1>>,
         consts |-> << R("str", 0, <<104, 105>>), R("float", 0, <<63, 248, 0, 0, 0, 0, 0, 0>>), R("int", 300, <<>>), R("int", -1, <<255, 255, 255, 255, 255, 255, 255, 255, 253>>), R("bool", 1, <<>>), R("nil", 0, <<>>) >>,
         positions |-> <<8, 8, 8, 241, 241, 241, 2300, 2300, 2300, 2301>>, lfs |-> <<9, 240, 2288>>]
PickParts == /\ phase = 0 /\ Scope = "parts"
             /\ \/ p' = Tiny /\ \E cs \in SUBSET (1..(Len(EncodeProg(Tiny)) - 1)) : sz' = [kind |-> "parts", n |-> 0, pat |-> SetToSeq(cs)]
                \/ p' = Rich /\ \E a, b \in 0..(Len(EncodeProg(Rich)) - 1) : a <= b /\ sz' = [kind |-> "parts", n |-> 0, pat |-> SetToSeq({a, b} \ {0})]
             /\ phase' = 9 /\ UNCHANGED h
Next == PickParts \/ PickName \/ PickCode \/ PickConst \/ PickLfs \/ HMagic1 \/ HMagic2 \/ HVer1 \/ HVer2 \/ SKind \/ SSize
Spec == Init /\ [][Next]_vars

\* ---- design-level invariants (scope "mc")
Enc == EncodeProg(p)
PrefixFree == \A c \in 0..(Len(Enc) - 1) : ~Loadable(SubSeq(Enc, 1, c))
Faithful == LET d == DecodeProg(Enc) IN
            /\ d.magicOk /\ d.end = Len(Enc) + 1 /\ d.minor = p.minor /\ d.name = p.name /\ d.code = p.code
            /\ d.positions = p.positions /\ d.lfs = p.lfs
            /\ Len(d.consts) = Len(p.consts)
            /\ \A i \in 1..Len(p.consts) : d.consts[i] = p.consts[i]
            /\ EncodeProg(d) = Enc
FormatOk == (Scope = "mc" /\ phase = 9) => Loadable(Enc) /\ PrefixFree /\ Faithful
VarintOk == \A v \in {0, 1, 239, 240, 241, 242, 495, 496, 497, 2286, 2287, 2288, 2289, 67822, 67823, 67824, 67825, 16777214, 16777215, 16777216, 16777217, 1073741823} :
              LET e == EncUv(v) IN (v < 16777216 => Uv(e, 1).v = v) /\ Uv(e, 1).n = Len(e) /\ UvLen(e[1]) = Len(e)
\* ---- cases
HeaderExpect == IF h[1] = 252 /\ h[2] = 108 /\ h[3] = 1 /\ h[4] <= 1 THEN "ok" ELSE "error"
Emit == phase = 9 =>
  PrintT(<<"CASE", ToJson(
    IF Scope = "header" THEN [fam |-> "format", kind |-> "header", hdr |-> h, expect |-> HeaderExpect, n |-> 0, pat |-> <<>>, bytes |-> <<>>, nt |-> TRUE]
    ELSE IF Scope = "sizes" THEN [fam |-> "format", kind |-> sz.kind, hdr |-> <<>>, expect |-> "ok", n |-> sz.n, pat |-> sz.pat, bytes |-> <<>>, nt |-> TRUE]
    ELSE IF Scope = "parts" THEN [fam |-> "format", kind |-> "parts", hdr |-> <<>>, expect |-> "ok", n |-> 0, pat |-> sz.pat, bytes |-> Enc, nt |-> TRUE]
    ELSE [fam |-> "format", kind |-> "bytes", hdr |-> <<>>, expect |-> "ok", n |-> 0, pat |-> <<>>, bytes |-> Enc, nt |-> TRUE])>>)
====
