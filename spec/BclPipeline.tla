---- MODULE BclPipeline ----
\* L2: the three-goroutine front end of ParseFile (api.go) plus its caller, one action per critical section.
\*   reader: Read -> (error: send rerr | 0,EOF: send nil | select{ send chunk | done: send nil, return }) ... close(inpc); deferred Close
\*   lexer : needs input -> receives a chunk (an empty one is skipped) or sees inpc closed -> emits tokens into a channel of
\*           capacity TokBuf -> after EOF/FAIL closes the channel
\*   parser: receives tokens to the end; on any error closes done; publishes prog; sends perr
\*   caller: receives rerr, then perr; prefers rerr
\* The environment is a reader *script*: a sequence of Read results chosen in Init (payload classes, not bytes).
EXTENDS Integers, Sequences, FiniteSets, TLC
CONSTANTS MaxReads,      \* length bound of the reader script
          TokBuf,        \* capacity of the tokens channel
          EmptyIsEOF     \* TRUE = the pinned lexer, which took an empty chunk for the end of input (kept to show what the model finds)

\* One scripted Read result: n = 0/1 (no data / data), e = error class, toks = tokens the lexer cuts from the data (0..2),
\* bad = one of them is a syntax error, fail = the data ends in a lexical failure
ReadResults ==
  [n : {0}, e : {"nil", "eof", "err"}, toks : {0}, bad : {FALSE}, fail : {FALSE}] \cup
  [n : {1}, e : {"nil", "eof", "err"}, toks : 0..2, bad : BOOLEAN, fail : BOOLEAN]
\* a reader that has reported EOF (with or without data) has nothing more to give: EOF can only be the last scripted result
\* (after the script every Read returns 0, EOF). What a reader does after returning an error is its own business.
WellBehaved(s) == \A i \in 1..(Len(s) - 1) : s[i].e # "eof"
Scripts == { s \in UNION { [1..k -> ReadResults] : k \in 0..MaxReads } : WellBehaved(s) }

VARIABLES script0,    \* the whole script (constant through a behaviour; identifies the case)
          script, rpc, lpc, ppc, cpc,
          chunk,      \* read result the reader is trying to hand over
          lbuf, lbad, lfail,   \* what the lexer still has to emit from the current chunk
          tokens, tokClosed, inpcClosed, done,
          perrVal, closeCount, reads, readsAfterFail, lexFailed,
          gotR, gotP
vars == <<script0, script, rpc, lpc, ppc, cpc, chunk, lbuf, lbad, lfail, tokens, tokClosed, inpcClosed, done,
          perrVal, closeCount, reads, readsAfterFail, lexFailed, gotR, gotP>>

NoChunk == [n |-> 0, e |-> "nil", toks |-> 0, bad |-> FALSE, fail |-> FALSE]
Init ==
  /\ script0 \in Scripts /\ script = script0
  /\ rpc = "read" /\ lpc = "need" /\ ppc = "recv" /\ cpc = "rerr"
  /\ chunk = NoChunk /\ lbuf = 0 /\ lbad = FALSE /\ lfail = FALSE
  /\ tokens = <<>> /\ tokClosed = FALSE /\ inpcClosed = FALSE /\ done = FALSE
  /\ perrVal = "nil" /\ closeCount = 0 /\ reads = 0 /\ readsAfterFail = 0 /\ lexFailed = FALSE
  /\ gotR = "none" /\ gotP = "none"

\* ---------------- reader goroutine
RRead ==
  /\ rpc = "read"
  /\ LET r == IF script = <<>> THEN [n |-> 0, e |-> "eof", toks |-> 0, bad |-> FALSE, fail |-> FALSE] ELSE Head(script) IN
     /\ script' = IF script = <<>> THEN script ELSE Tail(script)
     /\ reads' = reads + 1
     /\ readsAfterFail' = IF lexFailed THEN readsAfterFail + 1 ELSE readsAfterFail
     /\ IF r.e = "err" THEN rpc' = "senderr" /\ chunk' = chunk
        ELSE IF r.e = "eof" /\ r.n = 0 THEN rpc' = "sendnil" /\ chunk' = chunk
        ELSE rpc' = "select" /\ chunk' = r
  /\ UNCHANGED <<script0, lpc, ppc, cpc, lbuf, lbad, lfail, tokens, tokClosed, inpcClosed, done, perrVal, closeCount, lexFailed, gotR, gotP>>
\* rendezvous on rerr with the caller
RSendRerr ==
  /\ rpc \in {"senderr", "sendnil", "senddone"} /\ cpc = "rerr"
  /\ gotR' = IF rpc = "senderr" THEN "readerr" ELSE "nil"
  /\ cpc' = "perr"
  /\ rpc' = IF rpc = "senddone" THEN "close" ELSE "closeinpc"
  /\ UNCHANGED <<script0, script, lpc, ppc, chunk, lbuf, lbad, lfail, tokens, tokClosed, inpcClosed, done, perrVal, closeCount, reads, readsAfterFail, lexFailed, gotP>>
RSeeDone ==
  /\ rpc = "select" /\ done /\ rpc' = "senddone"
  /\ UNCHANGED <<script0, script, lpc, ppc, cpc, chunk, lbuf, lbad, lfail, tokens, tokClosed, inpcClosed, done, perrVal, closeCount, reads, readsAfterFail, lexFailed, gotR, gotP>>
\* rendezvous on inpc with the lexer; after data+EOF the next Read returns (0, EOF), which is what the script's tail gives
Chunk ==
  /\ rpc = "select" /\ lpc = "need" /\ ~inpcClosed
  /\ rpc' = "read"
  /\ IF chunk.n = 0
       THEN /\ lbuf' = 0 /\ lbad' = FALSE /\ lfail' = FALSE
            /\ IF EmptyIsEOF THEN lpc' \in {"eof", "need"} ELSE lpc' = "need"
       ELSE lpc' = "emit" /\ lbuf' = chunk.toks /\ lbad' = chunk.bad /\ lfail' = chunk.fail
  /\ UNCHANGED <<script0, script, ppc, cpc, chunk, tokens, tokClosed, inpcClosed, done, perrVal, closeCount, reads, readsAfterFail, lexFailed, gotR, gotP>>
RCloseInpc ==
  /\ rpc = "closeinpc" /\ inpcClosed' = TRUE /\ rpc' = "close"
  /\ UNCHANGED <<script0, script, lpc, ppc, cpc, chunk, lbuf, lbad, lfail, tokens, tokClosed, done, perrVal, closeCount, reads, readsAfterFail, lexFailed, gotR, gotP>>
RClose ==
  /\ rpc = "close" /\ closeCount' = closeCount + 1 /\ rpc' = "exit"
  /\ UNCHANGED <<script0, script, lpc, ppc, cpc, chunk, lbuf, lbad, lfail, tokens, tokClosed, inpcClosed, done, perrVal, reads, readsAfterFail, lexFailed, gotR, gotP>>

\* ---------------- lexer goroutine
LEmit ==
  /\ lpc = "emit" /\ Len(tokens) < TokBuf
  /\ IF lbuf > 0 THEN /\ tokens' = Append(tokens, IF lbad /\ lbuf = 1 THEN "bad" ELSE "tok") /\ lbuf' = lbuf - 1
                      /\ lpc' = "emit" /\ lexFailed' = lexFailed
     ELSE IF lfail THEN tokens' = Append(tokens, "fail") /\ lbuf' = 0 /\ lpc' = "closetok" /\ lexFailed' = TRUE
     ELSE tokens' = tokens /\ lbuf' = 0 /\ lpc' = "need" /\ lexFailed' = lexFailed
  /\ UNCHANGED <<script0, script, rpc, ppc, cpc, chunk, lbad, lfail, tokClosed, inpcClosed, done, perrVal, closeCount, reads, readsAfterFail, gotR, gotP>>
LSeeClosed ==
  /\ lpc = "need" /\ inpcClosed /\ lpc' = "eof"
  /\ UNCHANGED <<script0, script, rpc, ppc, cpc, chunk, lbuf, lbad, lfail, tokens, tokClosed, inpcClosed, done, perrVal, closeCount, reads, readsAfterFail, lexFailed, gotR, gotP>>
LEof ==
  /\ lpc = "eof" /\ Len(tokens) < TokBuf /\ tokens' = Append(tokens, "eof") /\ lpc' = "closetok"
  /\ UNCHANGED <<script0, script, rpc, ppc, cpc, chunk, lbuf, lbad, lfail, tokClosed, inpcClosed, done, perrVal, closeCount, reads, readsAfterFail, lexFailed, gotR, gotP>>
LCloseTok ==
  /\ lpc = "closetok" /\ tokClosed' = TRUE /\ lpc' = "exit"
  /\ UNCHANGED <<script0, script, rpc, ppc, cpc, chunk, lbuf, lbad, lfail, tokens, inpcClosed, done, perrVal, closeCount, reads, readsAfterFail, lexFailed, gotR, gotP>>

\* ---------------- parser goroutine
PRecv ==
  /\ ppc = "recv" /\ tokens # <<>>
  /\ tokens' = Tail(tokens)
  /\ ppc' = IF Head(tokens) \in {"eof", "fail"} THEN "drain" ELSE "recv"
  /\ perrVal' = IF Head(tokens) \in {"fail", "bad"} THEN "err" ELSE perrVal
  /\ UNCHANGED <<script0, script, rpc, lpc, cpc, chunk, lbuf, lbad, lfail, tokClosed, inpcClosed, done, closeCount, reads, readsAfterFail, lexFailed, gotR, gotP>>
PDrain == \* matchEnd -> advance -> receive on the closed tokens channel
  /\ ppc = "drain" /\ tokens = <<>> /\ tokClosed
  /\ ppc' = IF perrVal = "err" THEN "closedone" ELSE "sendperr"
  /\ UNCHANGED <<script0, script, rpc, lpc, cpc, chunk, lbuf, lbad, lfail, tokens, tokClosed, inpcClosed, done, perrVal, closeCount, reads, readsAfterFail, lexFailed, gotR, gotP>>
PCloseDone ==
  /\ ppc = "closedone" /\ done' = TRUE /\ ppc' = "sendperr"
  /\ UNCHANGED <<script0, script, rpc, lpc, cpc, chunk, lbuf, lbad, lfail, tokens, tokClosed, inpcClosed, perrVal, closeCount, reads, readsAfterFail, lexFailed, gotR, gotP>>
PSendPerr ==
  /\ ppc = "sendperr" /\ cpc = "perr"
  /\ gotP' = IF perrVal = "err" THEN "parseerr" ELSE "nil"
  /\ cpc' = "returned" /\ ppc' = "exit"
  /\ UNCHANGED <<script0, script, rpc, lpc, chunk, lbuf, lbad, lfail, tokens, tokClosed, inpcClosed, done, perrVal, closeCount, reads, readsAfterFail, lexFailed, gotR>>

Next == RRead \/ RSendRerr \/ RSeeDone \/ Chunk \/ RCloseInpc \/ RClose
        \/ LEmit \/ LSeeClosed \/ LEof \/ LCloseTok \/ PRecv \/ PDrain \/ PCloseDone \/ PSendPerr
Spec == Init /\ [][Next]_vars
FairSpec == Init /\ [][Next]_vars
            /\ WF_vars(RRead) /\ WF_vars(RSendRerr) /\ WF_vars(RSeeDone) /\ WF_vars(Chunk) /\ WF_vars(RCloseInpc) /\ WF_vars(RClose)
            /\ WF_vars(LEmit) /\ WF_vars(LSeeClosed) /\ WF_vars(LEof) /\ WF_vars(LCloseTok)
            /\ WF_vars(PRecv) /\ WF_vars(PDrain) /\ WF_vars(PCloseDone) /\ WF_vars(PSendPerr)

\* ---- BclContract: what a caller of ParseFile may rely on (C11)
Quiescent == cpc = "returned" /\ rpc = "exit" /\ ppc = "exit" /\ lpc = "exit"
Ret == IF gotR = "readerr" THEN "readerr" ELSE gotP                 \* a read error is preferred
CloseAtMostOnce == closeCount <= 1
CloseBeforeQuiet == Quiescent => closeCount = 1
StopsReading == readsAfterFail <= 2                                   \* after a lexical failure: the read in flight and one more
ReadErrPreferred == (cpc = "returned" /\ gotR = "readerr") => Ret = "readerr"
Returns == <>(cpc = "returned")
Quiesces == <>[](Quiescent /\ closeCount = 1)
\* a lexer that never got its end of input may stay parked at "need" forever only if the parser has failed (done closed): it is
\* then unreachable garbage, not a leak of a running goroutine... it is a leak. The required pipeline lets it exit:
LexerExits == <>[](lpc = "exit")
====
