---- MODULE Chk_Comp ----
\* TV of the real compiler (translation validation): a batch of sources with what the real Parse did (accepted or not; the dump;
\* every diagnostic line parsed into line, column, quoted token / 'at end', message) is judged against the L1 lexer BclLex feeding
\* the L2 compiler machine BclCompiler: accept/reject (C17), location and quoted token of every diagnostic and the stored line
\* table (C08); code, constants and positions sections byte for byte and message wording (finer than any property: DRIFT).
EXTENDS BclCompiler, Json
Lx == INSTANCE BclLex
Fm == INSTANCE BclFormat
Batch == ndJsonDeserialize("progs.ndjson")
ToksOf(bs) == LET ts == Lx!RefTokens(bs) IN
              [i \in 1..Len(ts) |-> [k |-> ts[i].k, pos |-> ts[i].pos, msg |-> ts[i].msg,
                                     text |-> IF ts[i].k \in {"ERR", "FAIL", "EOF"} THEN <<>> ELSE SubSeq(bs, ts[i].from + 1, ts[i].pos)]]
Uv(bs, i) == Fm!Uv(bs, i)
Val(bs, i) ==
  LET tc == bs[i] IN
  CASE tc = 0 -> [v |-> [t |-> "nil", n |-> 0, s |-> <<>>], n |-> 1]
    [] tc = 1 -> LET u == Uv(bs, i + 1) IN [v |-> [t |-> "int", n |-> u.v, s |-> <<>>], n |-> 1 + u.n]
    [] tc = 2 -> [v |-> [t |-> "flt", n |-> 0, s |-> <<>>], n |-> 9]
    [] tc = 3 -> LET u == Uv(bs, i + 1) IN [v |-> [t |-> "str", n |-> 0, s |-> SubSeq(bs, i + 1 + u.n, i + u.n + u.v)], n |-> 1 + u.n + u.v]
    [] tc = 4 -> [v |-> [t |-> "bool", n |-> bs[i + 1], s |-> <<>>], n |-> 2]
RECURSIVE Vals(_, _, _, _)
Vals(bs, i, k, acc) == IF k = 0 THEN [vs |-> acc, i |-> i] ELSE LET x == Val(bs, i) IN Vals(bs, i + x.n, k - 1, Append(acc, x.v))
RECURSIVE Uvs(_, _, _, _)
Uvs(bs, i, k, acc) == IF k = 0 THEN [vs |-> acc, i |-> i] ELSE LET x == Uv(bs, i) IN Uvs(bs, i + x.n, k - 1, Append(acc, x.v))
Decode(bs) ==
  LET nm == Uv(bs, 5)  i1 == 5 + nm.n + nm.v  cl == Uv(bs, i1)  i2 == i1 + cl.n  i3 == i2 + cl.v
      cn == Uv(bs, i3)  cs == Vals(bs, i3 + cn.n, cn.v, <<>>)
      pn == Uv(bs, cs.i)  ps == Uvs(bs, cs.i + pn.n, pn.v, <<>>)
      ln == Uv(bs, ps.i)  ls == Uvs(bs, ps.i + ln.n, ln.v, <<>>)
  IN [code |-> SubSeq(bs, i2, i2 + cl.v - 1), consts |-> cs.vs, positions |-> ps.vs, lfs |-> ls.vs]
LineCol(bs, pos) ==
  LET nl == { i \in 1..Len(bs) : bs[i] = 10 /\ i - 1 < pos } IN
  IF nl = {} THEN <<1, pos + 1>>
  ELSE LET last == CHOOSE i \in nl : \A j \in nl : j <= i IN <<Cardinality(nl) + 1, pos - (last - 1)>>
SpecConst(c) == IF c.t = "flt" THEN [t |-> "flt", n |-> 0, s |-> <<>>] ELSE c
VARIABLES k, verdict
Init == k = 0 /\ verdict = "start"
Loc(b, d) == [line |-> LineCol(b.src, d.pos)[1], col |-> LineCol(b.src, d.pos)[2], at |-> d.at, tok |-> d.tok]
Judge(b) ==
  LET c == Compile(ToksOf(b.src)) IN
  IF c.ood THEN "ood"
  ELSE IF b.ok # ~c.hadError THEN "accept-mismatch"
  ELSE IF Len(c.diags) # Len(b.diags) THEN "diagcount-mismatch"
  ELSE IF \E i \in 1..Len(c.diags) : Loc(b, c.diags[i]) # [line |-> b.diags[i].line, col |-> b.diags[i].col, at |-> b.diags[i].at, tok |-> b.diags[i].tok] THEN "diagloc-mismatch"
  ELSE IF \E i \in 1..Len(c.diags) : c.diags[i].msg # b.diags[i].msg THEN "diagmsg-mismatch"
  ELSE IF ~b.ok THEN "ok-rejected"
  ELSE LET d == Decode(b.dump) IN
       IF d.code # c.code THEN "code-mismatch"
       ELSE IF d.positions # c.positions THEN "positions-mismatch"
       ELSE IF d.consts # [i \in 1..Len(c.consts) |-> SpecConst(c.consts[i])] THEN "consts-mismatch"
       ELSE IF d.lfs # Lx!RefNewlines(b.src) THEN "lfs-mismatch"
       ELSE "ok-accepted"
Next == k < Len(Batch) /\ k' = k + 1 /\ verdict' = Judge(Batch[k + 1])
Spec == Init /\ [][Next]_<<k, verdict>>
Good == verdict \in {"start", "ood", "ok-rejected", "ok-accepted"}
\* the runner reads the verdicts; nothing is an invariant violation here, so that every program of the batch is judged
Tally == verdict = "start" \/ PrintT(<<"VERDICT", k, verdict>>)
====
