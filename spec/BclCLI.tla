---- MODULE BclCLI ----
\* L2: the flag loop of cmd/bcl/args.go over abstract argument tokens; outcome class and configuration.
EXTENDS Integers, Sequences, FiniteSets, TLC, Json
\* an argument: [txt, kind, letters, val, hasEq]
A(txt, kind, letters, val, hasEq) == [txt |-> txt, kind |-> kind, letters |-> letters, val |-> val, hasEq |-> hasEq]
Args == { A("-h", "short", <<"h">>, "", FALSE), A("-d", "short", <<"d">>, "", FALSE), A("-t", "short", <<"t">>, "", FALSE),
          A("-r", "short", <<"r">>, "", FALSE), A("-s", "short", <<"s">>, "", FALSE), A("-x", "short", <<"x">>, "", FALSE),
          A("--disasm", "long", <<"d">>, "", FALSE), A("--stats", "long", <<"s">>, "", FALSE), A("--zzz", "longbad", <<>>, "", FALSE),
          A("-dt", "cluster", <<"d", "t">>, "", FALSE), A("-rsd", "cluster", <<"r", "s", "d">>, "", FALSE),
          A("-dx", "cluster", <<"d", "x">>, "", FALSE), A("-dh", "cluster", <<"d", "h">>, "", FALSE), A("-d1", "clusterbad", <<>>, "", FALSE),
          A("--bdump", "bdump", <<>>, "", FALSE), A("--bdump=o.bcb", "bdump", <<>>, "o.bcb", TRUE), A("--bdump=", "bdump", <<>>, "", TRUE),
          A("--bdumpx", "bdumpbad", <<>>, "", FALSE),
          A("--bload", "bload", <<>>, "", FALSE), A("--bload=i.bcb", "bload", <<>>, "i.bcb", TRUE),
          A("--", "ddash", <<>>, "", FALSE), A("-", "file", <<>>, "-", FALSE),
          A("calc.bcl", "file", <<>>, "calc.bcl", FALSE), A("g.txt", "file", <<>>, "g.txt", FALSE), A("i.bcb", "file", <<>>, "i.bcb", FALSE),
          A("e.bcl", "file", <<>>, "e.bcl", FALSE), A("lib.bcl", "file", <<>>, "lib.bcl", FALSE), A("nope.bcl", "file", <<>>, "nope.bcl", FALSE),
          A("--trace", "long", <<"t">>, "", FALSE), A("--result", "long", <<"r">>, "", FALSE), A("-ts", "cluster", <<"t", "s">>, "", FALSE) }
HasBclSuffix(f) == f \in {"calc.bcl", "e.bcl", "lib.bcl", "nope.bcl"}
Stem(f) == CASE f = "calc.bcl" -> "calc.bcb" [] f = "e.bcl" -> "e.bcb" [] f = "lib.bcl" -> "lib.bcb" [] f = "nope.bcl" -> "nope.bcb" [] OTHER -> ""
Cfg0 == [file |-> "", disasm |-> FALSE, trace |-> FALSE, result |-> FALSE, stats |-> FALSE, bdump |-> FALSE, bload |-> FALSE,
         bdumpFile |-> "", bloadFile |-> ""]
Out(class, cfg) == [class |-> class, cfg |-> cfg]
SetFlag(cfg, l) == CASE l = "d" -> [cfg EXCEPT !.disasm = TRUE] [] l = "t" -> [cfg EXCEPT !.trace = TRUE]
                     [] l = "r" -> [cfg EXCEPT !.result = TRUE] [] l = "s" -> [cfg EXCEPT !.stats = TRUE]
\* the loop; args is a sequence of argument records (cluster expansion pushes synthetic short flags in front)
Short(l) == A("-" \o l, "short", <<l>>, "", FALSE)
RECURSIVE Loop(_, _, _)
Loop(args, cfg, rest) ==
  IF args = <<>> THEN [done |-> "ok", cfg |-> cfg, rest |-> rest]
  ELSE LET a == Head(args) t == Tail(args) IN
       CASE a.kind = "short" ->
              (IF a.letters[1] = "h" THEN [done |-> "help", cfg |-> cfg, rest |-> rest]
               ELSE IF a.letters[1] \in {"d", "t", "r", "s"} THEN Loop(t, SetFlag(cfg, a.letters[1]), rest)
               ELSE [done |-> "usage", cfg |-> cfg, rest |-> rest])
         [] a.kind = "long" -> Loop(t, SetFlag(cfg, a.letters[1]), rest)
         [] a.kind \in {"longbad", "clusterbad", "bdumpbad"} -> [done |-> "usage", cfg |-> cfg, rest |-> rest]
         [] a.kind = "cluster" -> Loop([i \in 1..Len(a.letters) |-> Short(a.letters[i])] \o t, cfg, rest)
         [] a.kind = "bdump" -> Loop(t, [cfg EXCEPT !.bdump = TRUE, !.bdumpFile = IF a.hasEq THEN a.val ELSE @], rest)
         [] a.kind = "bload" -> Loop(t, [cfg EXCEPT !.bload = TRUE, !.bloadFile = IF a.hasEq THEN a.val ELSE @], rest)
         [] a.kind = "ddash" -> [done |-> "ok", cfg |-> cfg, rest |-> rest \o [i \in 1..Len(t) |-> t[i].txt]]
         [] a.kind = "file" -> Loop(t, cfg, Append(rest, a.txt))
ParseArgs(args) ==
  LET r == Loop(args, Cfg0, <<>>) IN
  IF r.done = "help" THEN Out("help", r.cfg)
  ELSE IF r.done = "usage" THEN Out("usage", r.cfg)
  ELSE IF Len(r.rest) > 1 THEN Out("usage", r.cfg)
  ELSE LET c1 == IF Len(r.rest) = 1 THEN [r.cfg EXCEPT !.file = r.rest[1]] ELSE r.cfg IN
       IF c1.bdump /\ c1.bdumpFile = "" /\ ~HasBclSuffix(c1.file) THEN Out("usage", c1)
       ELSE LET c2 == IF c1.bdump /\ c1.bdumpFile = "" THEN [c1 EXCEPT !.bdumpFile = Stem(c1.file)] ELSE c1 IN
            IF c2.bload /\ c2.file # "" /\ c2.bloadFile # "" THEN Out("usage", c2)
            ELSE LET c3 == IF c2.bload /\ c2.file = "" /\ c2.bloadFile # "" THEN [c2 EXCEPT !.file = c2.bloadFile] ELSE c2
                     c4 == IF c3.file = "" THEN [c3 EXCEPT !.file = "-"] ELSE c3
                 IN Out("run", c4)
\* what the run does, given the fixed fixtures: f.bcl, g.txt and stdin hold a program that succeeds, e.bcl one with a syntax error,
\* r.bcl one that prints and then fails at run time, i.bcb is the dump of f.bcl, nope.bcl does not exist
IsDumpFile(f) == f = "i.bcb"
Exists(f) == f \in {"-", "calc.bcl", "g.txt", "i.bcb", "e.bcl", "lib.bcl"}
ProgClass(f) == CASE f = "e.bcl" -> "parse-error" [] f = "lib.bcl" -> "runtime-error" [] f = "i.bcb" -> "parse-error" [] OTHER -> "ok"
RunClass(o) == IF o.class # "run" THEN o.class
               ELSE IF ~Exists(o.cfg.file) THEN "io-error"
               ELSE IF o.cfg.bload THEN (IF IsDumpFile(o.cfg.file) \/ o.cfg.file = "-" THEN "ok" ELSE "load-error")   \* with --bload standard input holds the dump
               ELSE ProgClass(o.cfg.file)
ExitOf(o) == CASE RunClass(o) = "usage" -> 2 [] RunClass(o) \in {"help", "ok"} -> 0 [] OTHER -> 1
\* is a dump file written? only when the program parsed (also when it then fails at run time)
DumpWritten(o) == o.class = "run" /\ o.cfg.bdump /\ RunClass(o) \in {"ok", "runtime-error"}
CONSTANT MaxArgs
VARIABLE argv
Init == argv = <<>>
Grow == Len(argv) < MaxArgs /\ \E a \in Args : argv' = Append(argv, a)
Spec == Init /\ [][Grow]_argv
Emit == LET o == ParseArgs(argv) IN
        PrintT(<<"CASE", ToJson([argv |-> [i \in 1..Len(argv) |-> argv[i].txt], class |-> o.class, exit |-> ExitOf(o),
                                  file |-> o.cfg.file, d |-> o.cfg.disasm, t |-> o.cfg.trace, r |-> o.cfg.result, s |-> o.cfg.stats,
                                  bdump |-> o.cfg.bdump, bload |-> o.cfg.bload, bdumpFile |-> o.cfg.bdumpFile, fam |-> "cli",
                                  rclass |-> RunClass(o), dumpWritten |-> DumpWritten(o), nt |-> (Len(argv) >= 2)])>>)
\* design property: flags commute (order of flag arguments before "--" does not matter)
IsPureFlag(a) == a.kind \in {"short", "long", "cluster"} /\ \A i \in 1..Len(a.letters) : a.letters[i] \in {"d", "t", "r", "s"}
Commute == \A i \in 1..(Len(argv) - 1) :
             (IsPureFlag(argv[i]) /\ (\A j \in 1..Len(argv) : argv[j].kind # "ddash"))
             => ParseArgs([argv EXCEPT ![i] = argv[i + 1], ![i + 1] = argv[i]]).class \in {ParseArgs(argv).class, "help", "usage"}
====
