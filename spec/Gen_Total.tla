---- MODULE Gen_Total ----
\* GEN front end for C06: inputs on which Parse / Interpret / Unmarshal and their file variants must return a result or an error,
\* never panic (in any goroutine) and never hang.
\*  "bytes"     every byte string of length <= MaxLen over an alphabet that reaches every lexer state (digits 0 8 9, x, e, '.', quote,
\*              backslash, q, operators, whitespace, '#', UTF-8 lead/continuation bytes, an illegal character)
\*  "literals"  every malformed or out-of-range literal spelling the lexer lets through, in every syntactic position of a literal
\*  "damage"    base programs with every byte replaced by every byte of a 16-byte pool, deleted, or doubled
\*  "scale"     shape families with a size parameter, at limit-1, limit, limit+1 of the implementation limits (operand stack 1024,
\*              block nesting 16, variables 1024, jump distance 65535) and out-of-domain operands (negative / large repeat counts,
\*              division by zero of every kind, integer extremes). The harness expands the shapes.
EXTENDS Integers, Sequences, FiniteSets, TLC, Json
CONSTANTS Scope, MaxLen
Alphabet == {48, 56, 57, 120, 101, 46, 34, 92, 113, 61, 33, 45, 62, 42, 32, 10, 35, 194, 160, 36, 97, 123}
S(str) == CASE str = "08" -> <<48, 56>> [] str = "09" -> <<48, 57>> [] str = "0x" -> <<48, 120>> [] str = "0X" -> <<48, 88>>
            [] str = "1e999" -> <<49, 101, 57, 57, 57>> [] str = "1e-999" -> <<49, 101, 45, 57, 57, 57>>
            [] str = "big" -> <<57, 57, 57, 57, 57, 57, 57, 57, 57, 57, 57, 57, 57, 57, 57, 57, 57, 57, 57, 57>>
            [] str = "maxp1" -> <<57, 50, 50, 51, 51, 55, 50, 48, 51, 54, 56, 53, 52, 55, 55, 53, 56, 48, 56>>        \* 9223372036854775808
            [] str = "bighex" -> <<48, 120, 102, 102, 102, 102, 102, 102, 102, 102, 102, 102, 102, 102, 102, 102, 102, 102, 102>>
            [] str = "0789" -> <<48, 55, 56, 57>> [] str = "00" -> <<48, 48>> [] str = "1.5e400" -> <<49, 46, 53, 101, 52, 48, 48>>
            [] str = "\\q" -> <<34, 92, 113, 34>> [] str = "\\x" -> <<34, 92, 120, 34>> [] str = "\\xZ" -> <<34, 92, 120, 90, 90, 34>>
            [] str = "\\u12" -> <<34, 92, 117, 49, 50, 34>> [] str = "\\400" -> <<34, 92, 52, 48, 48, 34>> [] str = "\\8" -> <<34, 92, 56, 34>>
            [] str = "\\'" -> <<34, 92, 39, 34>> [] str = "\\Udead" -> <<34, 92, 85, 48, 48, 49, 49, 48, 48, 48, 48, 34>>
            [] str = "\\ud800" -> <<34, 92, 117, 100, 56, 48, 48, 34>> [] str = "raw80" -> <<34, 128, 255, 34>> [] str = "\\ " -> <<34, 92, 32, 34>>
Literals == { S(x) : x \in {"08", "09", "0x", "0X", "1e999", "1e-999", "big", "maxp1", "bighex", "0789", "00", "1.5e400",
                            "\\q", "\\x", "\\xZ", "\\u12", "\\400", "\\8", "\\'", "\\Udead", "\\ud800", "raw80", "\\ "} }
\* contexts: [before, after]
Ctx(b, a) == [b |-> b, a |-> a]
P == <<112, 114, 105, 110, 116, 32>>
Contexts == { Ctx(P, <<10>>), Ctx(<<118, 97, 114, 32, 120, 32, 61, 32>>, <<10>>), Ctx(<<100, 101, 102, 32, 98, 32, 123, 32, 102, 32, 61, 32>>, <<32, 125, 10>>),
              Ctx(P \o <<49, 32, 43, 32>>, <<32, 42, 32, 50, 10>>), Ctx(P \o <<45>>, <<10>>), Ctx(P \o <<110, 111, 116, 32>>, <<32, 111, 114, 32, 49, 10>>),
              Ctx(<<100, 101, 102, 32, 98, 32>>, <<32, 123, 125, 10>>),                                   \* as a block name: def b L {}
              Ctx(<<100, 101, 102, 32, 98, 32, 123, 125, 10, 98, 105, 110, 100, 32, 98, 58>>, <<32, 45, 62, 32, 115, 116, 114, 117, 99, 116, 10>>),   \* bind b:L -> struct
              Ctx(P \o <<40>>, <<41, 10>>), Ctx(<<101, 118, 97, 108, 32, 120, 32, 61, 32>>, <<10>>) }
Bases == { P \o <<49, 32, 43, 32, 34, 97, 34, 32, 42, 32, 50, 10>>,                                        \* print 1 + "a" * 2
           <<118, 97, 114, 32, 120, 32, 61, 32, 48, 120, 49, 102, 59, 10>> \o P \o <<120, 32, 60, 61, 32, 50, 46, 53, 101, 49, 10>>,   \* var x = 0x1f; print x <= 2.5e1
           <<100, 101, 102, 32, 98, 32, 34, 110, 34, 32, 123, 32, 102, 32, 61, 32, 110, 105, 108, 32, 125, 10, 98, 105, 110, 100, 32, 98, 58, 49, 32, 45, 62, 32, 115, 108, 105, 99, 101, 10>>,
           <<35, 32, 99, 10>> \o P \o <<110, 111, 116, 32, 40, 49, 32, 61, 61, 32, 50, 41, 32, 97, 110, 100, 32, 116, 114, 117, 101, 10>> }
DamagePool == {48, 57, 120, 46, 34, 92, 61, 45, 123, 125, 40, 32, 10, 35, 194, 36}
\* scaling shapes: the harness renders shape(n)
Limits == [stack |-> 1024, block |-> 16, locals |-> 1024, jump |-> 65535]
ScaleCases ==
  { [shape |-> sh, n |-> Limits.stack + d] : sh \in {"nested-parens", "right-assoc-or", "unary-chain"}, d \in {-2, -1, 0, 1, 2} }
  \cup { [shape |-> "nested-def", n |-> Limits.block + d] : d \in {-1, 0, 1, 2} }
  \cup { [shape |-> sh, n |-> Limits.locals + d] : sh \in {"many-vars", "many-vars-read", "many-vars-in-block"}, d \in {-2, -1, 0, 1} }
  \cup { [shape |-> sh, n |-> k] : sh \in {"long-and", "long-or"}, k \in {65530, 65534, 65535, 65536, 65537, 65538, 65540, 65600, 70000, 131074} }
  \cup { [shape |-> "repeat", n |-> k] : k \in {-1, -1000000, 0, 1048576} }
  \cup { [shape |-> "block-value", n |-> k] : k \in 0..15 }
  \cup { [shape |-> "unmarshal-nested", n |-> k] : k \in 0..14 }   \* nested blocks, nil values, block values bound to fields of every kind      \* a child block read as a value, under every operator
  \cup { [shape |-> sh, n |-> 0] : sh \in {"div-int-zero", "div-float-zero", "float-div-zero", "minint-neg", "int-overflow", "huge-float", "cmp-nan", "many-binds", "long-ident", "long-string"} }
VARIABLES bs, phase, sc
vars == <<bs, phase, sc>>
Init == bs = <<>> /\ phase = 0 /\ sc = [shape |-> "", n |-> 0]
Grow == Scope = "bytes" /\ Len(bs) < MaxLen /\ \E b \in Alphabet : bs' = Append(bs, b) /\ UNCHANGED <<phase, sc>>
PickLit == Scope = "literals" /\ phase = 0 /\ \E l \in Literals, c \in Contexts : bs' = c.b \o l \o c.a /\ phase' = 1 /\ UNCHANGED sc
PickBase == Scope = "damage" /\ phase = 0 /\ \E b \in Bases : bs' = b /\ phase' = 1 /\ UNCHANGED sc
Damage == /\ Scope = "damage" /\ phase = 1 /\ phase' = 2 /\ UNCHANGED sc
          /\ \E i \in 1..Len(bs) :
               \/ \E b \in DamagePool : bs' = [bs EXCEPT ![i] = b]
               \/ bs' = SubSeq(bs, 1, i - 1) \o SubSeq(bs, i + 1, Len(bs))
               \/ bs' = SubSeq(bs, 1, i) \o SubSeq(bs, i, Len(bs))
\* programs whose operands (slot numbers, POPN counts, constant indices) cross the 1-byte varint class (240/241) and 255/256
VarScale == { [shape |-> sh, n |-> k] : sh \in {"many-vars", "many-vars-read", "many-vars-in-block"}, k \in {239, 240, 241, 242, 243, 245, 255, 256, 257, 300} }
              \cup { [shape |-> sh, n |-> k] : sh \in {"vars-distinct", "vars-distinct-end"}, k \in (1..40) \cup {239, 240, 241, 242, 243, 256, 257} }   \* every operand value incl. those equal to opcode numbers; -end: the scope ends right after a declaration
              \cup { [shape |-> "same-print", n |-> k] : k \in 0..5 }          \* constants of different kinds with the same printed form
\* blocks nested to every supported depth, with more blocks opened afterwards (a sibling at every level on the way out, a second
\* descent, a toplevel block): the limit is on the blocks open at one time, not on how deep the program has been before
\* a bind whose type name is a late constant: n filler fields (two constants each) come first, so that the constant index of the bound
\* type crosses the one-byte operand class (240/241) and 255/256; the binding must still be the one block of that type
\* n integer literals (each its own constant) come first; then an identifier is met for the first time and used again: constant
\* indices across 240/241, 2287/2288 (the two- and three-byte operand classes) and 65535/65536
ConstScale == { [shape |-> "many-consts", n |-> k] : k \in {1, 238, 239, 240, 241, 242, 2284, 2285, 2286, 2287, 2288, 2289, 2290, 65533, 65534, 65535, 65536, 65537, 67822, 67823, 67824} }
BindScale == { [shape |-> "bind-late", n |-> k] : k \in {1, 2} \cup (112..130) \cup {300, 1200} }
BlockScale == { [shape |-> sh, n |-> k] : sh \in {"nested-def-then", "nested-def-twice"}, k \in {1, 2, 3, 8, 14, 15, 16, 17} }
\* short-circuit jumps across the one-byte boundary of the 16-bit operand, taken and not taken
JumpScale == { [shape |-> sh, n |-> k] : sh \in {"long-and", "long-or", "long-and-nt", "long-or-nt"}, k \in {10, 200, 250, 254, 255, 256, 257, 258, 260, 300, 510, 512, 514, 1000, 4000} }
\* n pairs of redundant parentheses around one literal: layout, whatever n is (no limit of the language is near: nothing is pushed)
ParenScale == { [shape |-> "redundant-parens", n |-> k] : k \in {1, 2, 3, 100, 199, 200, 201, 202, 255, 256, 257, 300, 511, 512, 513, 1000} }
\* n broken print statements, one per line, then a good one: every line gets a diagnostic of its own, however many there are
ErrScale == { [shape |-> "many-errors", n |-> k] : k \in {1, 2, 3, 9, 10, 11, 12, 20, 49, 50, 51, 99, 100, 101, 255, 256, 300, 1000} }
PickScale == /\ phase = 0 /\ phase' = 1 /\ UNCHANGED bs
             /\ \/ Scope = "scale" /\ \E c \in ScaleCases : sc' = c
                \/ Scope = "varscale" /\ \E c \in VarScale : sc' = c
                \/ Scope = "jumps" /\ \E c \in JumpScale : sc' = c
                \/ Scope = "blockscale" /\ \E c \in BlockScale : sc' = c
                \/ Scope = "bindscale" /\ \E c \in BindScale : sc' = c
                \/ Scope = "constscale" /\ \E c \in ConstScale : sc' = c
                \/ Scope = "parenscale" /\ \E c \in ParenScale : sc' = c
                \/ Scope = "errscale" /\ \E c \in ErrScale : sc' = c
Next == Grow \/ PickLit \/ PickBase \/ Damage \/ PickScale
Spec == Init /\ [][Next]_vars
\* what the language says about the jump-distance shapes: the short-circuit jump spans 2 + 2m bytes for m = (n - 2) \div 2 added terms;
\* beyond the 16-bit operand the program must be rejected, otherwise the skipping run prints the left operand
JumpSpan(n) == 2 + 2 * ((n - 2) \div 2)
\* many-vars-read / -in-block declare v_i = i mod 7 and print v_0 + v_(n-1); vars-distinct declares v_i = 100 + i and prints v_0 + v_(n-1);
\* the -nt jump shapes do not take the jump and print the right operand: 1 + m
Dec(n) == LET RECURSIVE D(_) D(k) == IF k < 10 THEN <<48 + k>> ELSE Append(D(k \div 10), 48 + (k % 10)) IN D(n)
RECURSIVE Lines(_, _)
Lines(from, to) == IF from > to THEN <<>> ELSE Dec(from) \o <<10>> \o Lines(from + 1, to)
RECURSIVE Zeros(_)
Zeros(k) == IF k = 0 THEN <<>> ELSE <<48, 10>> \o Zeros(k - 1)
\* a sibling child is possible at depth d only if d + 1 <= limit
BlockOut(c) == LET down == Lines(1, c.n)
                   sib == Zeros(IF c.n < Limits.block THEN c.n ELSE c.n - 1)
               IN IF c.shape = "nested-def-then" THEN down \o sib \o <<55>> ELSE down \o down \o <<55>>
ExpectOf(c) == CASE c.shape \in {"long-and", "long-or"} ->
                      (IF JumpSpan(c.n) > Limits.jump THEN <<99>> ELSE IF c.shape = "long-and" THEN <<48>> ELSE <<49>>)      \* <<99>> = "c": compile error
                 [] c.shape \in {"long-and-nt", "long-or-nt"} -> (IF JumpSpan(c.n) > Limits.jump THEN <<99>> ELSE Dec(1 + ((c.n - 2) \div 2)))
                 [] c.shape \in {"many-vars-read", "many-vars-in-block"} -> (IF c.n + 2 > Limits.stack THEN <<>> ELSE Dec((c.n - 1) % 7))   \* the two operands need two more slots
                 [] c.shape = "vars-distinct" -> Dec(200 + (c.n - 1))
                 [] c.shape = "redundant-parens" -> <<55>>
                 [] c.shape = "many-errors" -> <<101>>       \* <<101>> = "e": rejected at compile time, one diagnostic on each of the lines 1..n, nothing printed
                 [] c.shape = "many-consts" -> <<50, 10, 55>>     \* the block prints q = 2, then the toplevel prints 7
                 [] c.shape = "bind-late" -> <<98>>          \* <<98>> = "b": a struct binding of the one block of type 'target' (name "t", k = n), two result blocks
                 \* every block prints its depth on the way in; "then": each level opens one more sibling child (printing 0) before it closes,
                 \* then a toplevel block prints 7; "twice": the whole descent is made a second time. Beyond the limit: a runtime error.
                 [] c.shape \in {"nested-def-then", "nested-def-twice"} -> (IF c.n > Limits.block THEN <<114>> ELSE BlockOut(c))      \* <<114>> = "r": runtime error
                 [] OTHER -> <<>>
\* where the "jump too long" diagnostic belongs: just after the last token of the over-long right operand, the ')' that closes it:
\* print 0 and (1+1+...+1)  -- 13 bytes before the operand, 2m+1 bytes of operand, then ')'
DiagCol(c) == IF c.shape \in {"long-and", "long-or", "long-and-nt", "long-or-nt"} /\ JumpSpan(c.n) > Limits.jump
              THEN (IF c.shape \in {"long-or", "long-or-nt"} THEN 12 ELSE 13) + (2 * ((c.n - 2) \div 2) + 1) + 1 + 1 ELSE 0
Emit == (Scope = "bytes" \/ phase >= 1) =>
        PrintT(<<"CASE", ToJson([fam |-> "total", src |-> bs, shape |-> sc.shape, n |-> sc.n, expect |-> ExpectOf(sc), dcol |-> DiagCol(sc), nt |-> (Len(bs) >= 2 \/ Scope \in {"parenscale", "errscale", "scale", "varscale", "jumps", "blockscale", "bindscale", "constscale"})])>>)
====
