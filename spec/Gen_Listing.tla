---- MODULE Gen_Listing ----
\* GEN front end for C19: the listing and the trace of programs whose code is longer than 9 999 bytes, where the offset column gets a
\* fifth digit. The program is `print 1;` n times on one line: its code is ONE PRINT n times and a final RET, every instruction one
\* byte long, so that the k-th line of the disassembly stands at offset k - 1; the trace lists the same instructions in the same
\* order; the statistics report 2n + 1 instructions read. The expectation is written out in full (offset and mnemonic per line).
EXTENDS Integers, Sequences, TLC, Json
Ns == {3, 4998, 4999, 5000, 5001, 5002, 6000, 50001}
VARIABLE n
Init == n = 0
Next == n = 0 /\ n' \in Ns
Spec == Init /\ [][Next]_n
OpAt(k) == IF k = 2 * n + 1 THEN "RET" ELSE IF k % 2 = 1 THEN "ONE" ELSE "PRINT"
Lines == [k \in 1..(2 * n + 1) |-> [off |-> k - 1, op |-> OpAt(k)]]
Emit == n > 0 => PrintT(<<"CASE", ToJson([fam |-> "listing", n |-> n, lines |-> Lines, opsread |-> 2 * n + 1, nt |-> TRUE])>>)
====
