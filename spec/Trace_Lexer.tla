---- MODULE Trace_Lexer ----
\* TV of the real streaming lexer (C07, C08): a batch of recorded ParseFile runs (lexruns.ndjson: the chunks the scripted reader
\* delivered, and the lexer goroutine's events — length of every chunk received, the global offset it reported to the line table
\* for each, kind and end offset of every token emitted) is judged against the L2 machine BclLexer run on the same chunks:
\* same tokens with the same global end offsets, chunks taken in order, and every chunk's newline offsets registered at the global
\* offset of its first byte (posShift + len(window)), whatever the window held at that moment.
EXTENDS BclLexer, Json
Batch == ndJsonDeserialize("lexruns.ndjson")
KindNo(k) == CASE k = "FAIL" -> 0 [] k = "EOF" -> 1 [] k = "ERR" -> 2 [] k = "INT" -> 3 [] k = "FLOAT" -> 4 [] k = "STR" -> 5 [] k = "IDENT" -> 6
               [] k = "VAR" -> 7 [] k = "DEF" -> 8 [] k = "EVAL" -> 9 [] k = "PRINT" -> 10 [] k = "BIND" -> 11 [] k = "TRUE" -> 12 [] k = "FALSE" -> 13
               [] k = "NIL" -> 14 [] k = "EQ" -> 15 [] k = "LCURLY" -> 16 [] k = "RCURLY" -> 17 [] k = "LPAREN" -> 18 [] k = "RPAREN" -> 19
               [] k = "OR" -> 20 [] k = "AND" -> 21 [] k = "NOT" -> 22 [] k = "EE" -> 23 [] k = "BE" -> 24 [] k = "LT" -> 25 [] k = "LE" -> 26
               [] k = "GT" -> 27 [] k = "GE" -> 28 [] k = "PLUS" -> 29 [] k = "MINUS" -> 30 [] k = "STAR" -> 31 [] k = "SLASH" -> 32
               [] k = "COLON" -> 33 [] k = "ARROW" -> 34 [] k = "SEMICOLON" -> 35
RECURSIVE Sums(_, _, _)
Sums(lens, acc, out) == IF lens = <<>> THEN out ELSE Sums(Tail(lens), acc + Head(lens), Append(out, acc))
Judge(b) ==
  LET L == LexChunks(b.chunks)
      want == [i \in 1..Len(L.out) |-> <<KindNo(L.out[i].k), L.out[i].pos>>]
      nrecv == Len(b.recvs)
  IN IF want # b.toks THEN "tokens-mismatch"
     ELSE IF nrecv > Len(b.chunks) \/ b.recvs # [i \in 1..nrecv |-> Len(b.chunks[i])] THEN "chunk-order-mismatch"
     ELSE IF Len(b.lfs) < nrecv \/ SubSeq(b.lfs, 1, nrecv) # Sums(b.recvs, 0, <<>>) THEN "linetable-offset-mismatch"
     ELSE "ok"
VARIABLES k, verdict
Init == k = 0 /\ verdict = "start"
Next == k < Len(Batch) /\ k' = k + 1 /\ verdict' = Judge(Batch[k + 1])
Spec == Init /\ [][Next]_<<k, verdict>>
Tally == verdict = "start" \/ PrintT(<<"VERDICT", k, verdict>>)
====
