---- MODULE MC_Load ----
\* MC: the loader machine BclLoad refines the L1 format definition under every delivery of the bytes and at every cut.
\* A file of the pool is cut at any byte (0 .. its length), and the source delivers the prefix in reads of any of the given sizes,
\* chosen anew at every read. Checked in every reachable state (stepwise: the loader's sections are single steps):
\*   Window     cons <= rd <= Len(file); the end is reported only when everything was delivered
\*   Verdict    when done: accepted iff the L1 predicate Loadable holds of the bytes (prefix-freeness then gives C13: every proper
\*              prefix is rejected), accepted => the parts are those of the L1 decoder, everything consumed
\*   Reason     a rejected prefix is rejected in the section the cut falls in (closed form from the L1 decoder's section boundaries)
\*   Events     the section events appear in order 0..5 with the counts of the L1 decoder
\*   Terminates (liveness, weak fairness of the loader and of the source) every load ends
EXTENDS BclLoad, TLC
CONSTANTS ReadSizes
R(t, i, raw) == [t |-> t, i |-> i, raw |-> raw]
Tiny == [minor |-> 1, name |-> <<97>>, code |-> <<12, 2, 1>>, consts |-> <<>>, positions |-> <<7, 7, 7>>, lfs |-> <<7>>]
Bare == [minor |-> 0, name |-> <<>>, code |-> <<1>>, consts |-> <<>>, positions |-> <<0>>, lfs |-> <<>>]
Rich == [minor |-> 1, name |-> <<105, 110>>, code |-> <<9, 0, 2, 9, 1, 2, 9, 3, 28, 1>>,
         consts |-> << R("str", 0, <<104, 105>>), R("float", 0, <<63, 248, 0, 0, 0, 0, 0, 0>>), R("int", 300, <<>>),
                       R("int", -1, <<255, 255, 255, 255, 255, 255, 255, 255, 253>>), R("bool", 1, <<>>), R("nil", 0, <<>>), R("str", 0, <<>>) >>,
         positions |-> <<8, 8, 8, 241, 241, 241, 2300, 2300, 2300, 2301>>, lfs |-> <<9, 240, 2288>>]
Long == [minor |-> 1, name |-> [i \in 1..12 |-> 96 + i], code |-> [i \in 1..11 |-> 12], consts |-> << R("str", 0, [i \in 1..13 |-> 64 + i]) >>,
         positions |-> [i \in 1..11 |-> 67824], lfs |-> <<>>]
Pool == {Tiny, Bare, Rich, Long}
VARIABLES s, full
vars == <<s, full>>
Init == \E p \in Pool : LET e == EncodeProg(p) IN full = e /\ \E c \in 0..Len(e) : s = InitLoad(SubSeq(e, 1, c))
DoFill == \E n \in ReadSizes : CanFill(s, n) /\ s' = Fill(s, n) /\ UNCHANGED full
DoFillRest == Blocked(s) /\ s.rd < Len(s.file) /\ s' = Fill(s, Len(s.file) - s.rd) /\ UNCHANGED full
DoEof == CanEof(s) /\ s' = FillEof(s) /\ UNCHANGED full
DoFillLast == Blocked(s) /\ s.rd < Len(s.file) /\ s' = FillLast(s, Len(s.file) - s.rd) /\ UNCHANGED full     \* the rest together with the end
DoStep == CanStep(s) /\ s' = StepL(s) /\ UNCHANGED full
Next == DoFill \/ DoFillRest \/ DoFillLast \/ DoEof \/ DoStep
Spec == Init /\ [][Next]_vars /\ WF_vars(Next)
MaxRead == CHOOSE m \in ReadSizes : \A x \in ReadSizes : x <= m
Window == /\ s.cons <= s.rd /\ s.rd <= Len(s.file)
          /\ (s.eof => s.rd = Len(s.file))
D == DecodeProg(full)
\* offsets (bytes consumed) at which the sections of the complete file end
Bounds == LET nm == Uv(full, 5)  i1 == 5 + nm.n + nm.v  cl == Uv(full, i1)  i3 == i1 + cl.n + cl.v
              cn == Uv(full, i3)  cs == Vals(full, i3 + cn.n, cn.v, <<>>)  pn == Uv(full, cs.i)  ps == Uvs(full, cs.i + pn.n, pn.v, <<>>)
              ln == Uv(full, ps.i) IN
          << 2, 4, 4 + nm.n, i1 - 1, i1 - 1 + cl.n, i3 - 1, i3 - 1 + cn.n, cs.i - 1, cs.i - 1 + pn.n, ps.i - 1, ps.i - 1 + ln.n, Len(full) >>
Labels == << "missing magic header", "missing bcode major/minor version", "name size", "name too short", "code size", "code too short",
             "constants size", "constant", "positions size", "position", "lfs size", "lfs" >>
ReasonOf(c) == Labels[CHOOSE j \in 1..12 : c < Bounds[j] /\ \A i \in 1..(j - 1) : c >= Bounds[i]]
Verdict == Done(s) =>
  /\ (s.out = "ok") = Loadable(s.file)
  /\ (s.out = "ok") = (s.file = full)
  /\ s.out = "ok" => /\ s.cons = Len(full) /\ s.parts.minor = D.minor /\ s.parts.name = D.name /\ s.parts.code = D.code
                     /\ s.parts.consts = D.consts /\ s.parts.positions = D.positions /\ s.parts.lfs = D.lfs
                     /\ EncodeProg(s.parts) = full
Reason == (Done(s) /\ s.out # "ok") => s.out = ReasonOf(Len(s.file))
Events == /\ \A i \in 1..Len(s.evs) : s.evs[i][1] = i - 1
          /\ Len(s.evs) >= 2 => s.evs[2][2] = Len(D.name)
          /\ Len(s.evs) >= 3 => s.evs[3][2] = Len(D.code)
          /\ Len(s.evs) >= 4 => s.evs[4][2] = Len(D.consts)
          /\ Len(s.evs) >= 5 => s.evs[5][2] = Len(D.positions)
          /\ Len(s.evs) >= 6 => s.evs[6][2] = Len(D.lfs)
          /\ s.out = "ok" => Len(s.evs) = 6
\* the whole-run operator used by trace validation agrees with the stepwise machine's verdict for fixed deliveries
RunAgrees == Done(s) => \A sz \in {<<>>, <<1>>, <<2, 9>>} : LET r == Load(s.file, sz) IN r.out = s.out /\ r.parts = s.parts /\ r.evs = s.evs
Terminates == <>Done(s)
====
