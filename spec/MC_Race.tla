---- MODULE MC_Race ----
\* MC_Race prototype: lexer and parser goroutines around the token channel, the shared line table, vector clocks.
\* Guarded = FALSE: pinned design (plain slice). Guarded = TRUE: accesses under one mutex.
EXTENDS Integers, Sequences, FiniteSets, TLC
CONSTANTS Chunks,      \* number of chunks the lexer will receive
          TokPerChunk, \* tokens it cuts from each
          TokBuf, Guarded
VARIABLES lpc, chunksLeft, toEmit, toks, closed, ppc,
          clkL, clkP, knowP, knowL, nSend, recvClks,
          lastW,      \* L-clock of the last write to lfs
          lastR,      \* P-clock of the last read of lfs
          muL, muP,   \* what the mutex carries: L-clock and P-clock of its last release
          race
vars == <<lpc, chunksLeft, toEmit, toks, closed, ppc, clkL, clkP, knowP, knowL, nSend, recvClks, lastW, lastR, muL, muP, race>>
Max(a, b) == IF a > b THEN a ELSE b
Init == /\ lpc = "recv" /\ chunksLeft = Chunks /\ toEmit = 0 /\ toks = <<>> /\ closed = FALSE /\ ppc = "run"
        /\ clkL = 0 /\ clkP = 0 /\ knowP = 0 /\ knowL = 0 /\ nSend = 0 /\ recvClks = <<>> /\ lastW = 0 /\ lastR = 0
        /\ muL = 0 /\ muP = 0 /\ race = FALSE
\* lexer receives a chunk and appends its newlines to lfs (a write)
LRecv == /\ lpc = "recv" /\ chunksLeft > 0
         /\ chunksLeft' = chunksLeft - 1 /\ toEmit' = TokPerChunk /\ lpc' = "emit"
         /\ clkL' = clkL + 1 /\ lastW' = clkL + 1
         /\ LET kL == IF Guarded THEN Max(knowL, muP) ELSE knowL IN       \* acquiring the mutex learns the last releaser
            /\ knowL' = kL /\ race' = (race \/ lastR > kL)
         /\ muL' = IF Guarded THEN clkL + 1 ELSE muL
         /\ UNCHANGED <<toks, closed, ppc, clkP, knowP, nSend, recvClks, lastR, muP>>
LEmit == /\ lpc = "emit" /\ toEmit > 0 /\ Len(toks) < TokBuf
         /\ toks' = Append(toks, clkL + 1) /\ clkL' = clkL + 1 /\ toEmit' = toEmit - 1 /\ nSend' = nSend + 1
         /\ knowL' = IF nSend + 1 > TokBuf THEN Max(knowL, recvClks[nSend + 1 - TokBuf]) ELSE knowL
         /\ UNCHANGED <<lpc, chunksLeft, closed, ppc, clkP, knowP, recvClks, lastW, lastR, muL, muP, race>>
LNext == /\ lpc = "emit" /\ toEmit = 0 /\ lpc' = (IF chunksLeft > 0 THEN "recv" ELSE "eof")
         /\ UNCHANGED <<chunksLeft, toEmit, toks, closed, ppc, clkL, clkP, knowP, knowL, nSend, recvClks, lastW, lastR, muL, muP, race>>
LEof == /\ lpc = "eof" /\ closed' = TRUE /\ lpc' = "exit"
        /\ UNCHANGED <<chunksLeft, toEmit, toks, ppc, clkL, clkP, knowP, knowL, nSend, recvClks, lastW, lastR, muL, muP, race>>
\* parser receives a token; it may report a diagnostic for it, which reads lfs
PRecv(diag) ==
  /\ ppc = "run" /\ toks # <<>>
  /\ toks' = Tail(toks) /\ clkP' = clkP + (IF diag THEN 2 ELSE 1) /\ recvClks' = Append(recvClks, clkP + 1)
  /\ LET kP0 == Max(knowP, Head(toks))
         kP == IF diag /\ Guarded THEN Max(kP0, muL) ELSE kP0 IN
     /\ knowP' = kP
     /\ race' = (race \/ (diag /\ lastW > kP))
     /\ lastR' = IF diag THEN clkP + 2 ELSE lastR
     /\ muP' = IF diag /\ Guarded THEN clkP + 2 ELSE muP
  /\ UNCHANGED <<lpc, chunksLeft, toEmit, closed, ppc, clkL, knowL, nSend, lastW, muL>>
PDone == /\ ppc = "run" /\ toks = <<>> /\ closed /\ ppc' = "exit"
         /\ UNCHANGED <<lpc, chunksLeft, toEmit, toks, closed, clkL, clkP, knowP, knowL, nSend, recvClks, lastW, lastR, muL, muP, race>>
Next == LRecv \/ LEmit \/ LNext \/ LEof \/ (\E d \in BOOLEAN : PRecv(d)) \/ PDone
Spec == Init /\ [][Next]_vars
NoRace == ~race
====
