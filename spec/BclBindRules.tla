---- MODULE BclBindRules ----
\* L1 for Bind/Unmarshal (C05, C15, C16): the documented matching rule and the *required* outcome of copying a block into a
\* Go struct described by a type descriptor. Written from the doc comment of Bind and the property text:
\*   - a key matches a field when equal to its `bcl` tag (tags first; the last field carrying a tag wins), else when the key cut at
\*     the first '.' equals the field name ignoring case and underscores, and exactly one field matches that way;
\*   - a named struct type must match the block type by the same folding; anonymous struct types match any block type;
\*   - the block name goes to the field matched by "Name" (required when the name is non-empty);
\*   - no coercion: int->int, float->float64, string->string, bool->bool, anything non-nil -> interface{};
\*   - nil values, unexported or missing counterparts, non-struct destinations of nested blocks, and two keys that end up in the
\*     same field (one of them would be dropped silently) are errors.
\* Expect(T, blk) is "nil" (must succeed, with the target value Target(T, blk)), "error" (must fail), or "any" where the
\* property leaves the outcome open (it must still not panic).
EXTENDS BclValues, FiniteSets
Lower(c) == IF c >= 65 /\ c <= 90 THEN c + 32 ELSE c
LowerS(s) == [i \in 1..Len(s) |-> Lower(s[i])]
NoUnder(s) == SelectSeq(s, LAMBDA c : c # 95)
Matches(goName, key) == LowerS(goName) = LowerS(NoUnder(key))
RECURSIVE CutDot(_)
CutDot(k) == IF k = <<>> \/ Head(k) = 46 THEN <<>> ELSE <<Head(k)>> \o CutDot(Tail(k))
IsUpper(c) == c >= 65 /\ c <= 90
Exported(goName) == goName # <<>> /\ IsUpper(goName[1])

NoT == [tname |-> <<>>, fields |-> <<>>]
Field(go, tag, kind, sub) == [go |-> go, tag |-> tag, kind |-> kind, sub |-> sub]
NoB == [type |-> <<>>, name |-> <<>>, ents |-> <<>>]
Ent(k, v) == [k |-> k, kind |-> "val", v |-> v, b |-> <<>>]
EntB(k, b) == [k |-> k, kind |-> "blk", v |-> NilV, b |-> <<b>>]
AtomV(kind, name) == V(kind, 0, 1, <<>>, name)        \* a value TLC cannot compute with (extreme int / float); transported by name

ZeroOf(kind) == CASE kind = "int" -> IntV(0) [] kind = "float" -> V("float", 0, 1, <<>>, "") [] kind = "string" -> StrV(<<>>)
                  [] kind = "bool" -> BoolV(FALSE) [] OTHER -> NilV
RECURSIVE ZeroT(_)
ZeroT(T) == [i \in 1..Len(T.fields) |-> [v |-> ZeroOf(T.fields[i].kind),
                                         sub |-> IF T.fields[i].kind = "struct" THEN <<ZeroT(T.fields[i].sub)>> ELSE <<>>]]

AnyTagged(T) == \E i \in 1..Len(T.fields) : T.fields[i].tag # <<>>
LastTagged(T, key) == LET S == { i \in 1..Len(T.fields) : T.fields[i].tag = key } IN
                      IF S = {} THEN 0 ELSE CHOOSE i \in S : \A j \in S : j <= i
FindField(T, key) ==
  LET ti == IF AnyTagged(T) THEN LastTagged(T, key) ELSE 0 IN
  IF ti > 0 THEN ti
  ELSE LET ms == { i \in 1..Len(T.fields) : Matches(T.fields[i].go, CutDot(key)) } IN
       IF Cardinality(ms) = 1 THEN CHOOSE i \in ms : TRUE ELSE 0
Assignable(kind, v) == CASE kind = "int" -> v.t = "int" [] kind = "float" -> v.t = "float" [] kind = "string" -> v.t = "str"
                         [] kind = "bool" -> v.t = "bool" [] kind = "any" -> v.t # "nil" [] OTHER -> FALSE
NameKey == <<78, 97, 109, 101>>
HasEmbedded(T) == \E i \in 1..Len(T.fields) : T.fields[i].kind \in {"embedded", "embeddedptr"}

\* three-valued combination: error dominates, then any
Worst(a, b) == IF a = "error" \/ b = "error" THEN "error" ELSE IF a = "any" \/ b = "any" THEN "any" ELSE "nil"
RECURSIVE Expect(_, _)
ExpectEnt(T, e) ==
  LET i == FindField(T, e.k) IN
  IF i = 0 THEN "error"
  ELSE IF ~Exported(T.fields[i].go) THEN "error"
  ELSE IF e.kind = "blk" THEN (IF T.fields[i].kind # "struct" THEN "error" ELSE Expect(T.fields[i].sub, e.b[1]))
  ELSE IF e.v.t = "nil" THEN "error"
  ELSE IF ~Assignable(T.fields[i].kind, e.v) THEN "error"
  ELSE "nil"
RECURSIVE WorstAll(_, _, _)
WorstAll(T, ents, i) == IF i > Len(ents) THEN "nil" ELSE Worst(ExpectEnt(T, ents[i]), WorstAll(T, ents, i + 1))
ExpectName(T, blk) ==
  LET i == FindField(T, NameKey) IN
  IF blk.name # <<>> THEN
     (IF i = 0 \/ ~Exported(T.fields[i].go) \/ T.fields[i].kind \notin {"string", "any"} THEN "error" ELSE "nil")
  ELSE IF i = 0 THEN "nil"
  ELSE IF Exported(T.fields[i].go) /\ T.fields[i].kind = "string" THEN "nil"
  ELSE "any"
\* indices of the fields written by the entries (and by a non-empty name)
Collides(T, blk) ==
  LET idx(e) == FindField(T, e.k)
      n == Len(blk.ents)
      ni == IF blk.name # <<>> THEN FindField(T, NameKey) ELSE 0
  IN \/ \E a, b \in 1..n : a < b /\ idx(blk.ents[a]) # 0 /\ idx(blk.ents[a]) = idx(blk.ents[b])
     \/ \E a \in 1..n : ni # 0 /\ idx(blk.ents[a]) = ni
Expect(T, blk) ==
  IF T.tname # <<>> /\ ~Matches(T.tname, blk.type) THEN "error"
  ELSE IF HasEmbedded(T) THEN "any"
  ELSE LET w == Worst(ExpectName(T, blk), WorstAll(T, blk.ents, 1)) IN
       IF w = "error" THEN "error" ELSE IF Collides(T, blk) THEN "error" ELSE w

\* the target value of a successful copy (order-free because nothing collides)
RECURSIVE Target(_, _)
RECURSIVE Fill(_, _, _, _)
Fill(T, tv, ents, i) ==
  IF i > Len(ents) THEN tv
  ELSE LET e == ents[i] j == FindField(T, e.k) IN
       Fill(T, IF e.kind = "blk" THEN [tv EXCEPT ![j].sub = <<Target(T.fields[j].sub, e.b[1])>>] ELSE [tv EXCEPT ![j].v = e.v], ents, i + 1)
Target(T, blk) ==
  LET ni == FindField(T, NameKey)
      t0 == ZeroT(T)
      t1 == IF blk.name # <<>> THEN [t0 EXCEPT ![ni].v = StrV(blk.name)] ELSE t0
  IN Fill(T, t1, blk.ents, 1)

\* which fields of a *reused* target a successful copy writes (the others are left to the implementation): the field matched by
\* "Name" always (an unnamed block has the name ""), the field of every value entry, and inside the struct of a nested block the
\* same again
RECURSIVE NoneWritten(_)
NoneWritten(T) == [i \in 1..Len(T.fields) |-> [w |-> FALSE, sub |-> IF T.fields[i].kind = "struct" THEN <<NoneWritten(T.fields[i].sub)>> ELSE <<>>]]
RECURSIVE Written(_, _)
RECURSIVE MarkW(_, _, _, _)
MarkW(T, w, ents, i) ==
  IF i > Len(ents) THEN w
  ELSE LET e == ents[i] j == FindField(T, e.k) IN
       MarkW(T, IF e.kind = "blk" THEN [w EXCEPT ![j].sub = <<Written(T.fields[j].sub, e.b[1])>>] ELSE [w EXCEPT ![j].w = TRUE], ents, i + 1)
Written(T, blk) ==
  LET ni == FindField(T, NameKey)
      w0 == NoneWritten(T)
      w1 == IF ni # 0 /\ Exported(T.fields[ni].go) /\ T.fields[ni].kind = "string" THEN [w0 EXCEPT ![ni].w = TRUE] ELSE w0
  IN MarkW(T, w1, blk.ents, 1)

\* where the outcome is left open ("any": an embedded struct is among the fields) one thing still holds if the copy succeeds: a
\* value entry whose key is the 'bcl' tag of a direct field is in that field (tags take precedence over every name rule).
\* TagStored(T, blk) = the (field index, value) pairs this fixes.
TagStored(T, blk) == { <<LastTagged(T, blk.ents[i].k), blk.ents[i].v>> : i \in { j \in 1..Len(blk.ents) : blk.ents[j].kind = "val" /\ AnyTagged(T) /\ LastTagged(T, blk.ents[j].k) > 0 } }

\* ---- design-level lemmas checked by TLC in MC_Bind
\* L1: the outcome does not depend on the order of the entries (C16 at design level)
Permute2(blk) == IF Len(blk.ents) = 2 THEN [blk EXCEPT !.ents = <<blk.ents[2], blk.ents[1]>>] ELSE blk
OrderFree(T, blk) == /\ Expect(T, blk) = Expect(T, Permute2(blk))
                     /\ (Expect(T, blk) = "nil" => Target(T, blk) = Target(T, Permute2(blk)))
\* L2: success stores every entry (C15 "never silently drops")
RECURSIVE StoredAll(_, _, _)
StoredAll(T, tv, blk) ==
  /\ (blk.name # <<>> => tv[FindField(T, NameKey)].v = StrV(blk.name))
  /\ \A i \in 1..Len(blk.ents) :
        LET e == blk.ents[i] j == FindField(T, e.k) IN
        /\ j # 0
        /\ IF e.kind = "blk" THEN StoredAll(T.fields[j].sub, tv[j].sub[1], e.b[1]) ELSE tv[j].v = e.v
NoDrop(T, blk) == Expect(T, blk) = "nil" => StoredAll(T, Target(T, blk), blk)
====
