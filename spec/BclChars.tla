---- MODULE BclChars ----
EXTENDS Integers, Sequences
\* byte / rune classes (runes are code points; EOFR = -1; RuneError = 65533)
EOFR == -1
RERR == 65533
IsDigit(r) == r >= 48 /\ r <= 57
IsAlpha(r) == (r >= 97 /\ r <= 122) \/ (r >= 65 /\ r <= 90)
IsAlnum(r) == IsAlpha(r) \/ IsDigit(r)
IsIdentStart(r) == IsAlpha(r) \/ r = 95
IsIdentPart(r) == IsAlnum(r) \/ r = 95
IsHex(r) == IsDigit(r) \/ (r >= 97 /\ r <= 102) \/ (r >= 65 /\ r <= 70)
IsSpace(r) == r \in {32, 9, 11, 12, 10, 13, 133, 160}
IsEol(r) == r \in {10, 13}
IsCont(b) == b >= 128 /\ b <= 191
\* expected encoded length by lead byte (2-, 3- and 4-byte forms; others invalid => 1). Simplified: the second-byte ranges that
\* exclude overlong forms, surrogates and code points beyond U+10FFFF are not modelled (the pools hold well-formed characters)
NeedLen(b) == IF b < 128 THEN 1 ELSE IF b >= 194 /\ b <= 223 THEN 2 ELSE IF b >= 224 /\ b <= 239 THEN 3 ELSE IF b >= 240 /\ b <= 244 THEN 4 ELSE 1
\* is the rune starting at index i (1-based) of bs complete (or certainly invalid)?
FullRuneAt(bs, i) ==
  LET n == NeedLen(bs[i]) avail == Len(bs) - i + 1 IN
  IF n = 1 THEN TRUE
  ELSE IF avail >= n THEN TRUE
  ELSE \E j \in (i + 1)..Len(bs) : ~IsCont(bs[j])
\* decode at index i: [r, w]
DecodeAt(bs, i) ==
  IF i > Len(bs) THEN [r |-> EOFR, w |-> 0]
  ELSE LET b == bs[i] n == NeedLen(b) avail == Len(bs) - i + 1 IN
       IF b < 128 THEN [r |-> b, w |-> 1]
       ELSE IF n = 2 /\ avail >= 2 /\ IsCont(bs[i + 1]) THEN [r |-> (b - 192) * 64 + (bs[i + 1] - 128), w |-> 2]
       ELSE IF n = 3 /\ avail >= 3 /\ IsCont(bs[i + 1]) /\ IsCont(bs[i + 2])
            THEN [r |-> (b - 224) * 4096 + (bs[i + 1] - 128) * 64 + (bs[i + 2] - 128), w |-> 3]
       ELSE IF n = 4 /\ avail >= 4 /\ IsCont(bs[i + 1]) /\ IsCont(bs[i + 2]) /\ IsCont(bs[i + 3])
            THEN [r |-> (b - 240) * 262144 + (bs[i + 1] - 128) * 4096 + (bs[i + 2] - 128) * 64 + (bs[i + 3] - 128), w |-> 4]
       ELSE [r |-> RERR, w |-> 1]
====
