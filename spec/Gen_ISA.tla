---- MODULE Gen_ISA ----
\* GEN front end for C14 (ii): hand-assembled bytecode. TLC enumerates instruction sequences over *every opcode* of version 1.1
\* (incl. what the compiler never emits: NOP, LOOP, CONST of negative int / bool / nil constants), keeps the ones that are
\* well-formed along every path (PathsOk of BclISA), assembles a version 1.1 file with EncodeProg and computes the outcome with
\* BclVM. The real LoadProg + Execute must give that outcome: the numbering, operand and value encodings mean the same to the
\* build under test as to the specification, independently of the build's own compiler.
EXTENDS BclVM, Json
CONSTANTS MaxInstr
R(t, i, raw) == [t |-> t, i |-> i, raw |-> raw]
\* constant pool of every assembled file (indices 0..8)
Consts == << R("str", 0, <<97>>), R("int", 5, <<>>), R("float", 0, <<64, 4, 0, 0, 0, 0, 0, 0>>),          \* "a", 5, 2.5
             R("int", -1, <<255, 255, 255, 255, 255, 255, 255, 255, 253>>), R("bool", 1, <<>>), R("nil", 0, <<>>),   \* -3, true, nil
             R("str", 0, <<>>), R("str", 0, <<98>>), R("bool", 0, <<>>) >>                                   \* "", "b", false
I(op, a, b) == [op |-> op, a |-> a, b |-> b]
Pool == { I("CONST", k, 0) : k \in {0, 1, 2, 3, 4, 5, 8} } \cup { I(o, 0, 0) : o \in {"NIL", "ZERO", "ONE", "TRUE", "FALSE", "NOT", "NEG", "UNPLUS",
            "EQ", "LT", "GT", "ADD", "SUB", "MUL", "DIV", "POP", "PRINT", "NOP", "ENDBLOCK"} }
          \cup { I("POPN", 2, 0), I("GETLOCAL", 0, 0), I("SETLOCAL", 0, 0), I("GETLOCAL", 1, 0),
                 I("JUMP", 0, 0), I("JUMP", 1, 0), I("JUMP", 3, 0), I("JFALSE", 0, 0), I("JFALSE", 1, 0), I("JFALSE", 2, 0), I("JFALSE", 4, 0), I("LOOP", 4, 0), I("LOOP", 3, 0),
                 I("DEFBLOCK", 0, 6), I("DEFBLOCK", 7, 0), I("SETFIELD", 0, 0), I("GETFIELD", 0, 0), I("GETFIELD", 7, 0),
                 I("BIND", 0, 17), I("BIND", 0, 47), I("BIND", 7, 34) }
Enc(i) == LET oc == OpCode(i.op) IN
          CASE i.op \in {"CONST", "GETFIELD", "SETFIELD", "GETLOCAL", "SETLOCAL", "POPN"} -> <<oc>> \o EncUv(i.a)
            [] i.op = "DEFBLOCK" -> <<oc>> \o EncUv(i.a) \o EncUv(i.b)
            [] i.op \in {"JUMP", "JFALSE", "LOOP"} -> <<oc, i.a \div 256, i.a % 256>>
            [] i.op = "BIND" -> <<oc>> \o EncUv(i.a) \o <<i.b>>
            [] OTHER -> <<oc>>
RECURSIVE Asm(_)
Asm(is) == IF is = <<>> THEN <<>> ELSE Enc(Head(is)) \o Asm(Tail(is))
\* sequential depth discipline while growing (a necessary condition that prunes the enumeration); jumps are depth-neutral here
SeqEffect(i) == Effect(i)
VARIABLES is, depth, bdepth
vars == <<is, depth, bdepth>>
\* hand-assembled programs in which a backward jump is *executed* and the run still ends (the enumeration above is too short for
\* that): a flag in slot 0, tested at the loop head, cleared in the body
\*   0 ONE | 1 GETLOCAL 0 | 3 JFALSE +11 (-> 17) | 6 POP | 7 GETLOCAL 0 | 9 PRINT | 10 ZERO | 11 SETLOCAL 0 | 13 POP | 14 LOOP 16 (-> 1) | 17 POP | 18 POP | RET
Loop1 == << I("ONE", 0, 0), I("GETLOCAL", 0, 0), I("JFALSE", 11, 0), I("POP", 0, 0), I("GETLOCAL", 0, 0), I("PRINT", 0, 0), I("ZERO", 0, 0),
            I("SETLOCAL", 0, 0), I("POP", 0, 0), I("LOOP", 16, 0), I("POP", 0, 0), I("POP", 0, 0) >>
\* the same with a NOP in the body (the distances one larger) and the flag printed before the test
Loop2 == << I("ONE", 0, 0), I("GETLOCAL", 0, 0), I("PRINT", 0, 0), I("GETLOCAL", 0, 0), I("JFALSE", 9, 0), I("POP", 0, 0), I("NOP", 0, 0), I("ZERO", 0, 0),
            I("SETLOCAL", 0, 0), I("POP", 0, 0), I("LOOP", 17, 0), I("POP", 0, 0), I("POP", 0, 0) >>
Init == is \in {<<>>, Loop1, Loop2} /\ depth = 0 /\ bdepth = 0
Grow == /\ Len(is) < MaxInstr
        /\ \E i \in Pool :
             /\ depth >= NeedsDepth(i)
             /\ (i.op \in {"GETLOCAL", "SETLOCAL"} => i.a < depth)
             /\ (i.op \in {"ENDBLOCK", "SETFIELD", "GETFIELD"} => bdepth >= 1)
             /\ (i.op = "DEFBLOCK" => bdepth < 2)
             /\ is' = Append(is, i) /\ depth' = depth + SeqEffect(i)
             /\ bdepth' = bdepth + (IF i.op = "DEFBLOCK" THEN 1 ELSE IF i.op = "ENDBLOCK" THEN -1 ELSE 0)
Next == Grow
Spec == Init /\ [][Next]_vars
\* a complete program: the sequence, POP/POPN to depth 0 is the assembler's business not ours: only sequences that already end at 0
Code == Asm(is) \o <<OpCode("RET")>>
Prog == [minor |-> 1, name |-> <<105, 115, 97>>, code |-> Code, consts |-> Consts,
         positions |-> [i \in 1..Len(Code) |-> 0], lfs |-> <<>>]
RECURSIVE RunFuel(_, _)
RunFuel(s, fuel) == IF s.done THEN s ELSE IF fuel = 0 THEN [s EXCEPT !.ood = TRUE, !.done = TRUE] ELSE RunFuel(StepVM(s), fuel - 1)
RECURSIVE Flat(_)
Flat(lines) == IF lines = <<>> THEN <<>> ELSE Head(lines) \o <<10>> \o Flat(Tail(lines))
Complete == is # <<>> /\ depth = 0 /\ bdepth = 0 /\ PathsOk(Prog)
Outcome == LET v == RunFuel(InitVM([code |-> Code, consts |-> [i \in 1..Len(Consts) |-> ValOf(Consts[i])]]), 60) IN
           [ood |-> v.ood, err |-> v.err.kind, out |-> Flat(v.out), nres |-> Len(v.result), warn |-> v.warn,
            bkind |-> v.binding.kind, bn |-> Len(v.binding.blocks), ops |-> v.ops]
Emit == Complete => PrintT(<<"CASE", ToJson([fam |-> "isa", bytes |-> EncodeProg(Prog), code |-> Code, expect |-> Outcome, nt |-> (Len(is) >= 2)])>>)
====
