---- MODULE Gen_Bind ----
\* GEN front end for C05 / C15 / C16: (type descriptor, block) cases with the required outcome, and (binding, target kind) cases.
EXTENDS BclBindRules, Json
CONSTANTS Scope,     \* "fields" | "targets"
          MaxFields, \* fields per descriptor
          Small      \* TRUE: reduced key and value pools (quick tier)
B(s) == CASE s = "Name" -> <<78, 97, 109, 101>> [] s = "X" -> <<88>> [] s = "x" -> <<120>> [] s = "FooBar" -> <<70, 111, 111, 66, 97, 114>>
          [] s = "Foobar" -> <<70, 111, 111, 98, 97, 114>> [] s = "Foo_Bar" -> <<70, 111, 111, 95, 66, 97, 114>>
          [] s = "foo_bar" -> <<102, 111, 111, 95, 98, 97, 114>> [] s = "foobar" -> <<102, 111, 111, 98, 97, 114>>
          [] s = "FOO_BAR" -> <<70, 79, 79, 95, 66, 65, 82>> [] s = "Y" -> <<89>> [] s = "y" -> <<121>> [] s = "Z" -> <<90>>
          [] s = "Inner" -> <<73, 110, 110, 101, 114>> [] s = "inner" -> <<105, 110, 110, 101, 114>>
          [] s = "inner.n" -> <<105, 110, 110, 101, 114, 46, 110>> [] s = "n" -> <<110>> [] s = "t" -> <<116>> [] s = "Any" -> <<65, 110, 121>>
          [] s = "any" -> <<97, 110, 121>> [] s = "" -> <<>> [] s = "s" -> <<115>> [] s = "name" -> <<110, 97, 109, 101>>
          [] s = "W" -> <<87>> [] s = "w" -> <<119>> [] s = "k" -> <<107>> [] s = "srv" -> <<115, 114, 118>> [] s = "Srv" -> <<83, 114, 118>>
          [] s = "f_oo_bar" -> <<102, 95, 111, 111, 95, 98, 97, 114>> [] s = "P" -> <<80>> [] s = "p" -> <<112>>
          [] s = "T" -> <<84>> [] s = "Emb" -> <<69, 109, 98>> [] s = "Flags" -> <<70, 108, 97, 103, 115>> [] s = "flags" -> <<102, 108, 97, 103, 115>> [] s = "z" -> <<122>> [] s = "inner.v1.2" -> <<105, 110, 110, 101, 114, 46, 118, 49, 46, 50>> [] s = "_x" -> <<95, 120>> [] s = "X_" -> <<88, 95>> [] s = "_foo__bar_" -> <<95, 102, 111, 111, 95, 95, 98, 97, 114, 95>>
          [] s = "Port" -> <<80, 111, 114, 116>> [] s = "Listen" -> <<76, 105, 115, 116, 101, 110>> [] s = "listen" -> <<108, 105, 115, 116, 101, 110>>
          [] s = "port" -> <<112, 111, 114, 116>> [] s = "conf" -> <<99, 111, 110, 102>> [] s = "Conf" -> <<67, 111, 110, 102>>
SubE == [tname |-> <<>>, fields |-> <<>>]                                  \* a struct without fields (zero size)
SubA == [tname |-> <<>>, fields |-> << Field(B("X"), <<>>, "int", NoT) >>]
SubB == [tname |-> <<>>, fields |-> << Field(B("Name"), <<>>, "string", NoT), Field(B("X"), <<>>, "int", NoT) >>]
\* the field pool: supported kinds, colliding names, tags (two fields sharing one tag), unexported, interface, nested structs
\* with and without Name, and the unsupported kinds of C15 (pointer, slice, map, array field; embedded struct)
Pool == << Field(B("Flags"), <<>>, "struct", SubE),            \* first, so that it can stand in front of any other field
           Field(B("Name"), <<>>, "string", NoT), Field(B("Name"), <<>>, "int", NoT), Field(B("X"), <<>>, "int", NoT),
           Field(B("X"), <<>>, "string", NoT), Field(B("x"), <<>>, "int", NoT), Field(B("FooBar"), <<>>, "int", NoT),
           Field(B("Foobar"), <<>>, "int", NoT), Field(B("Foo_Bar"), <<>>, "int", NoT), Field(B("Y"), B("x"), "int", NoT),
           Field(B("Z"), B("foo_bar"), "string", NoT), Field(B("W"), B("x"), "int", NoT), Field(B("Any"), <<>>, "any", NoT),
           Field(B("Inner"), <<>>, "struct", SubA), Field(B("Inner"), <<>>, "struct", SubB), Field(B("Inner"), <<>>, "int", NoT),
           Field(B("X"), <<>>, "float", NoT), Field(B("X"), <<>>, "bool", NoT),
           Field(B("P"), <<>>, "ptrint", NoT), Field(B("P"), <<>>, "sliceint", NoT), Field(B("P"), <<>>, "mapsi", NoT),
           Field(B("P"), <<>>, "arrint", NoT), Field(B("Inner"), <<>>, "ptrstruct", NoT), Field(B("Emb"), <<>>, "embedded", NoT),
           Field(B("Port"), B("listen"), "int", NoT), Field(B("Listen"), <<>>, "int", NoT), Field(B("Port"), <<>>, "int", NoT),
           Field(B("X"), <<>>, "defint", NoT), Field(B("X"), <<>>, "defstring", NoT), Field(B("Y"), <<>>, "deffloat", NoT), Field(B("Y"), <<>>, "defbool", NoT),
           Field(B("z"), B("foo_bar"), "int", NoT),
           Field(B("Emb"), <<>>, "embeddedptr", NoT) >>                          \* an embedded *struct{X int}, nil in the target: its promoted X cannot be reached                          \* an unexported field that carries a tag
Idx == 1..(Len(Pool) - 1)      \* the last entry (nil embedded pointer) only in the descriptors of the targets scope: the fields scope is large enough
Distinct(is) == \A i, j \in 1..Len(is) : i < j => (is[i] < is[j] /\ Pool[is[i]].go # Pool[is[j]].go)
TOf(is, tn) == [tname |-> tn, fields |-> [i \in 1..Len(is) |-> Pool[is[i]]]]
Esc == <<113, 34, 92, 10, 9, 195, 169, 35, 239, 191, 189>>      \* q " \ LF TAB e-acute # U+FFFD : a string value that needs every escape class (and holds the replacement character itself)
Vals == { IntV(1), StrV(B("s")), NilV, FloatV(5, 2), BoolV(TRUE), AtomV("int", "maxint"), AtomV("float", "maxfloat"),
          IntV(0), IntV(-5), StrV(<<>>), StrV(Esc), FloatV(-5, 2), V("float", 0, 1, <<>>, ""), BoolV(FALSE), AtomV("int", "minint"), AtomV("float", "tinyfloat") }
ValsQ == { IntV(1), StrV(B("s")), NilV, FloatV(5, 2), BoolV(TRUE) }
InnerBlk(nm) == [type |-> B("inner"), name |-> nm, ents |-> << Ent(B("x"), IntV(7)) >>]
Keys == IF Small THEN {"x", "X", "_x", "foo_bar", "foobar", "y", "name", "p"} ELSE {"x", "X", "_x", "X_", "foo_bar", "foobar", "f_oo_bar", "_foo__bar_", "y", "any", "name", "p"}
EntsPool == { Ent(B(k), v) : k \in Keys, v \in (IF Small THEN {IntV(1), StrV(B("s")), NilV} ELSE Vals) }
              \cup { Ent(B("x"), StrV(Esc)), Ent(B("foo_bar"), IntV(-5)), Ent(B("y"), StrV(<<>>)), Ent(B("x"), StrV(<<97, 92>>)) }   \* a\ : its literal ends in an escaped backslash
              \cup { EntB(B("inner"), InnerBlk(<<>>)), EntB(B("inner.n"), InnerBlk(B("n"))),
                     EntB(B("any"), [type |-> B("any"), name |-> <<>>, ents |-> << Ent(B("x"), IntV(7)) >>]),
                     EntB(B("inner.v1.2"), InnerBlk(<<118, 49, 46, 50>>)),
                     EntB(B("flags"), [type |-> B("flags"), name |-> <<>>, ents |-> <<>>]) }                    \* an empty nested block for a struct without fields                                     \* a nested block named v1.2: the key is cut at the first dot   \* a nested block aimed at an interface field
DistinctKeys(es) == \A i, j \in 1..Len(es) : i # j => es[i].k # es[j].k

VARIABLES d, tn, blk, phase, tk, bk, nblk
vars == <<d, tn, blk, phase, tk, bk, nblk>>
Init == d = <<>> /\ tn = <<>> /\ blk = NoB /\ phase = 0 /\ tk = "ptr-struct" /\ bk = "struct" /\ nblk = 1
\* fields scope: descriptor field by field, then block name, then entries
AddField == /\ Scope = "fields" /\ phase = 0 /\ Len(d) < MaxFields
            /\ \E i \in Idx : Distinct(Append(d, i)) /\ d' = Append(d, i)
            /\ UNCHANGED <<tn, blk, phase, tk, bk, nblk>>
PickName == /\ Scope = "fields" /\ phase = 0 /\ d # <<>>
            /\ \E nm \in {<<>>, B("n"), <<113, 34, 92, 10, 9, 195, 169, 239, 191, 189>>} : blk' = [type |-> B("t"), name |-> nm, ents |-> <<>>] /\ tn' = <<>>
            /\ phase' = 1 /\ UNCHANGED <<d, tk, bk, nblk>>
AddEnt == /\ Scope = "fields" /\ phase \in {1, 2}
          /\ \E e \in EntsPool : DistinctKeys(Append(blk.ents, e)) /\ blk' = [blk EXCEPT !.ents = Append(@, e)]
          /\ phase' = phase + 1 /\ UNCHANGED <<d, tn, tk, bk, nblk>>
\* targets scope: binding kind x number of blocks x target kind, over a few descriptors and blocks
TKinds == {"ptr-struct", "ptr-slice", "nil", "struct", "nilptr-struct", "nilptr-slice", "ptr-int", "ptr-string", "ptr-map", "ptr-slice-int",
           "ptr-slice-ptr", "ptr-ptr-struct", "slice", "ptr-array", "ptr-iface", "ptr-func", "ptr-chan"}
\* (descriptor, type name): anonymous struct types and the declared types of the harness catalogue
TDescs == { <<<<2, 4>>, <<>>>>, <<<<4>>, <<>>>>, <<<<3, 4>>, <<>>>>, <<<<2, 4>>, B("T")>>, <<<<4>>, B("FooBar")>>, <<<<2, 5>>, B("Srv")>>,
            <<<<25, 26>>, B("Conf")>>, <<<<27, 26>>, B("Conf")>>,
            <<<<24, 25>>, <<>>>>, <<<<24, 25, 26>>, <<>>>>, <<<<33>>, <<>>>>, <<<<2, 33>>, <<>>>> }        \* an embedded struct in front of a tagged field (and of a field the tag could be confused with)    \* two declared types of the same name, one with a tag
TBlocks == { [type |-> B(ty), name |-> nm, ents |-> es] : ty \in {"t", "foo_bar", "srv", "conf"}, nm \in {<<>>, B("n")},
             es \in { <<>>, <<Ent(B("x"), IntV(1))>>, <<Ent(B("x"), StrV(B("s")))>>, <<Ent(B("y"), IntV(1))>>, <<Ent(B("listen"), IntV(1))>>,
                      <<Ent(B("port"), IntV(1)), Ent(B("listen"), IntV(7))>> } }
PickTarget == /\ Scope = "targets" /\ phase = 0
              /\ \E k \in TKinds, b \in {"struct", "slice", "nil"}, dd \in TDescs : tk' = k /\ bk' = b /\ d' = dd[1] /\ tn' = dd[2]
              /\ phase' = 1 /\ UNCHANGED <<blk, nblk>>
PickBlocks == /\ Scope = "targets" /\ phase = 1
              /\ \E b \in TBlocks, n \in 0..2 : blk' = b /\ nblk' = (IF bk = "slice" THEN n ELSE 1)
              /\ phase' = 2 /\ UNCHANGED <<d, tn, tk, bk>>
\* big scope: N blocks bound to a slice (or the last of them to a struct): constant indices and slot numbers across 240/241, 255/256
BigNs == {1, 2, 39, 40, 41, 59, 60, 61, 62, 79, 80, 81, 84, 85, 86, 119, 120, 121, 128, 129, 300}
PickBig == /\ Scope = "big" /\ phase = 0 /\ \E n \in BigNs, b \in {"struct", "slice"} : nblk' = n /\ bk' = b
           /\ phase' = 2 /\ UNCHANGED <<d, tn, blk, tk>>
Next == AddField \/ PickName \/ AddEnt \/ PickTarget \/ PickBlocks \/ PickBig
Spec == Init /\ [][Next]_vars

RECURSIVE TvJ(_)
ValJ(v) == [t |-> v.t, n |-> v.n, d |-> v.d, s |-> v.s, atom |-> v.e]
TvJ(tv) == [i \in 1..Len(tv) |-> [v |-> ValJ(tv[i].v), sub |-> IF tv[i].sub = <<>> THEN <<>> ELSE <<TvJ(tv[i].sub[1])>>]]
RECURSIVE WrJ(_)
WrJ(w) == [i \in 1..Len(w) |-> [w |-> w[i].w, sub |-> IF w[i].sub = <<>> THEN <<>> ELSE <<WrJ(w[i].sub[1])>>]]
RECURSIVE TJ(_)
TJ(T) == [i \in 1..Len(T.fields) |-> [go |-> T.fields[i].go, tag |-> T.fields[i].tag, kind |-> T.fields[i].kind,
                                      sub |-> IF T.fields[i].kind = "struct" THEN <<TJ(T.fields[i].sub)>> ELSE <<>>]]
RECURSIVE BJ(_)
BJ(b) == [type |-> b.type, name |-> b.name,
          ents |-> [i \in 1..Len(b.ents) |-> [k |-> b.ents[i].k, kind |-> b.ents[i].kind, v |-> ValJ(b.ents[i].v),
                                               b |-> IF b.ents[i].kind = "blk" THEN <<BJ(b.ents[i].b[1])>> ELSE <<>>]]]
RECURSIVE SetToSeqT(_)
SetToSeqT(S) == IF S = {} THEN <<>> ELSE LET x == CHOOSE y \in S : TRUE IN <<x>> \o SetToSeqT(S \ {x})
T == TOf(d, tn)
\* what the whole Bind call must do for the chosen target kind and binding kind
TargetOk == (bk = "struct" /\ tk = "ptr-struct") \/ (bk = "slice" /\ tk = "ptr-slice")
ExpectCall == IF bk = "nil" \/ ~TargetOk THEN "error"
              ELSE IF nblk = 0 THEN "nil" ELSE Expect(T, blk)
Case == [ fam |-> "bind", tk |-> tk, bk |-> bk, nblk |-> nblk, tname |-> tn, desc |-> TJ(T), blk |-> BJ(blk),
          expect |-> ExpectCall,
          tv |-> IF ExpectCall = "nil" /\ nblk > 0 THEN TvJ(Target(T, blk)) ELSE <<>>,
          wr |-> IF ExpectCall = "nil" /\ nblk > 0 THEN WrJ(Written(T, blk)) ELSE <<>>,
          tagged |-> IF ExpectCall = "any" THEN SetToSeqT({ [i |-> p[1], v |-> ValJ(p[2])] : p \in TagStored(T, blk) }) ELSE <<>>,
          nt |-> (Len(blk.ents) >= 2 \/ tk # "ptr-struct"),
          sens |-> (Cardinality({ i \in 1..Len(blk.ents) : ExpectEnt(T, blk.ents[i]) = "error" }) >= 2 \/ Collides(T, blk)) ]
Complete == (Scope = "fields" /\ phase >= 1) \/ (Scope = "targets" /\ phase = 2)
Emit == /\ Complete => PrintT(<<"CASE", ToJson(Case)>>)
        /\ (Scope = "big" /\ phase = 2) => PrintT(<<"CASE", ToJson([fam |-> "bindbig", n |-> nblk, bk |-> bk, nt |-> TRUE])>>)
\* design-level lemmas of BclBindRules, evaluated in every generated case
Lemmas == Complete /\ Scope = "fields" => OrderFree(T, blk) /\ NoDrop(T, blk)
====
