---- MODULE BclLineCol ----
\* Source locations. L1: LineCol(bytes, p) — line = 1 + number of LF before offset p, column = bytes since the preceding LF (p + 1 on
\* line 1). L2: LineColOf(lfs, p) — the same from the stored table of newline offsets, by the search linecalc.go uses
\* (sort.SearchInts: smallest index whose entry is >= p). Gen_Pos checks that they agree (invariant Lemma).
EXTENDS Integers, Sequences, FiniteSets
NewlineOffsets(bs) == LET RECURSIVE Go(_, _)
                          Go(i, acc) == IF i > Len(bs) THEN acc ELSE Go(i + 1, IF bs[i] = 10 THEN Append(acc, i - 1) ELSE acc)
                      IN Go(1, <<>>)
LineCol(bs, p) ==
  LET nl == { i \in 1..Len(bs) : bs[i] = 10 /\ i - 1 < p } IN
  IF nl = {} THEN <<1, p + 1>>
  ELSE LET last == CHOOSE i \in nl : \A j \in nl : j <= i IN <<Cardinality(nl) + 1, p - (last - 1)>>
RECURSIVE Search(_, _, _)
Search(lfs, pos, j) == IF j >= Len(lfs) \/ lfs[j + 1] >= pos THEN j ELSE Search(lfs, pos, j + 1)
LineColOf(lfs, pos) ==
  LET j == Search(lfs, pos, 0) IN
  IF j = Len(lfs) THEN (IF j = 0 THEN <<1, pos + 1>> ELSE <<j + 1, pos - lfs[j]>>)
  ELSE <<j + 1, pos - (IF j > 0 THEN lfs[j] ELSE -1)>>
====
