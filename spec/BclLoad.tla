---- MODULE BclLoad ----
\* L2: Prog.Load (prog.go) with valueFromBuf / uvarintFromBuf (encoding.go) as a step machine over a byte source that is read
\* lazily through a buffered reader. One record holds the state; Step is built from one small operator per control label.
\*   file    the bytes the source will deliver in total (a complete dump, a proper prefix of one, or anything else)
\*   rd      bytes delivered by the source so far        eof   the source has reported the end
\*   cons    bytes consumed by the loader                (rd - cons = what the buffered reader holds)
\*   sec     control label, m / k / idx pending size, items left, item index
\*   parts   the program being built;  evs  section events <<no, count>> in the order the loader completes them
\*   out     "" while running, "ok", or the label of the rejection (the text of the Go error up to its first colon)
\* The environment's only freedom is how many bytes each read delivers; a read happens only when the loader needs more than the
\* buffer holds (Need), which is what makes the machine bindable to recorded reads: the real bufio.Reader never reads earlier.
\* Varints are looked at through Peek(9): the loader waits for nine bytes or the end of the source before it decides.
\* Deliberate deviation kept as the code has it: the tail step accepts a file followed by further bytes (TailLenient).
EXTENDS BclFormat
NoParts == [minor |-> 0, name |-> <<>>, code |-> <<>>, consts |-> <<>>, positions |-> <<>>, lfs |-> <<>>]
InitLoad(file) == [file |-> file, rd |-> 0, eof |-> FALSE, cons |-> 0, sec |-> "magic", m |-> 0, k |-> 0, idx |-> 0,
                   parts |-> NoParts, evs |-> <<>>, out |-> "", ood |-> FALSE]
Held(s) == s.rd - s.cons
Done(s) == s.out # ""
UvSecs == {"namesz", "codesz", "cn", "cint", "cstrsz", "pn", "pos", "ln", "lf"}
Need(s) == CASE s.sec \in {"magic", "ver"} -> 2
             [] s.sec \in UvSecs -> 9
             [] s.sec \in {"name", "code", "cstr"} -> s.m
             [] s.sec = "cfloat" -> 8
             [] s.sec \in {"ctype", "cbool", "tail"} -> 1
             [] OTHER -> 0
Blocked(s) == ~Done(s) /\ ~s.eof /\ Held(s) < Need(s)
\* ---- the environment: one read of the source
CanFill(s, n) == Blocked(s) /\ n >= 1 /\ s.rd + n <= Len(s.file)
Fill(s, n) == [s EXCEPT !.rd = @ + n]
CanEof(s) == Blocked(s) /\ s.rd = Len(s.file)
FillEof(s) == [s EXCEPT !.eof = TRUE]
\* a reader may hand over its last bytes together with the end (n > 0 and io.EOF in one read), and may deliver nothing at all
\* without an error (a zero-byte read changes nothing; the loader asks again)
CanFillLast(s, n) == Blocked(s) /\ n >= 1 /\ s.rd + n = Len(s.file)
FillLast(s, n) == [s EXCEPT !.rd = @ + n, !.eof = TRUE]
CanZero(s) == Blocked(s)
\* ---- the loader
At(s, j) == s.file[s.cons + j]
Take(s, n) == SubSeq(s.file, s.cons + 1, s.cons + n)
Rej(s, why) == [s EXCEPT !.out = why]
Go(s, n, sec) == [s EXCEPT !.cons = @ + n, !.sec = sec]
Ev(s, no, cnt) == [s EXCEPT !.evs = Append(@, <<no, cnt>>)]
\* a varint at the cursor: [ok, v, n]; opaque values (five bytes and more) cannot be sizes here: the machine marks itself OOD
UvAt(s) == IF Held(s) = 0 \/ Held(s) < UvLen(At(s, 1)) THEN [ok |-> FALSE, v |-> 0, n |-> 0]
           ELSE LET u == Uv(s.file, s.cons + 1) IN [ok |-> TRUE, v |-> u.v, n |-> u.n]
ItemLabel(base, i) == base   \* the index is reported next to the label (s.idx)
\* after the last item of a list section, or at once for an empty list
AfterConsts(s) == [Ev(s, 3, Len(s.parts.consts)) EXCEPT !.sec = "pn"]
AfterPos(s) == [Ev(s, 4, Len(s.parts.positions)) EXCEPT !.sec = "ln"]
AfterLfs(s) == [Ev(s, 5, Len(s.parts.lfs)) EXCEPT !.sec = "tail"]
NextConst(s) == IF s.k = 1 THEN AfterConsts([s EXCEPT !.k = 0]) ELSE [s EXCEPT !.k = @ - 1, !.idx = @ + 1, !.sec = "ctype"]
PushConst(s, c) == NextConst([s EXCEPT !.parts.consts = Append(@, c)])
StMagic(s) == IF Held(s) < 2 THEN Rej(s, "missing magic header")
              ELSE IF At(s, 1) # 252 \/ At(s, 2) # 108 THEN Rej(s, "invalid magic header") ELSE Go(s, 2, "ver")
StVer(s) == IF Held(s) < 2 THEN Rej(s, "missing bcode major/minor version")
            ELSE IF At(s, 1) # 1 THEN Rej(s, "invalid bcode major version")
            ELSE IF At(s, 2) > 1 THEN Rej(s, "invalid bcode minor version")
            ELSE Ev([Go(s, 2, "namesz") EXCEPT !.parts.minor = At(s, 2)], 0, 0)
StSize(s, why, nextsec) == LET u == UvAt(s) IN
  IF ~u.ok THEN Rej(s, why) ELSE IF u.v < 0 THEN [Rej(s, "ood") EXCEPT !.ood = TRUE] ELSE [Go(s, u.n, nextsec) EXCEPT !.m = u.v]
StName(s) == IF Held(s) < s.m THEN Rej(s, "name too short") ELSE Ev([Go(s, s.m, "codesz") EXCEPT !.parts.name = Take(s, s.m)], 1, s.m)
StCode(s) == IF Held(s) < s.m THEN Rej(s, "code too short") ELSE Ev([Go(s, s.m, "cn") EXCEPT !.parts.code = Take(s, s.m)], 2, s.m)
StCount(s, why, itemsec, after(_)) == LET u == UvAt(s) IN
  IF ~u.ok THEN Rej(s, why) ELSE IF u.v < 0 THEN [Rej(s, "ood") EXCEPT !.ood = TRUE]
  ELSE LET t == [Go(s, u.n, itemsec) EXCEPT !.k = u.v, !.idx = 0] IN IF u.v = 0 THEN after(t) ELSE t
StCType(s) == IF Held(s) < 1 THEN Rej(s, "constant") ELSE
  LET tc == At(s, 1) t == Go(s, 1, "") IN
  CASE tc = 0 -> PushConst(t, [t |-> "nil", i |-> 0, raw |-> <<>>])
    [] tc = 1 -> [t EXCEPT !.sec = "cint"] [] tc = 2 -> [t EXCEPT !.sec = "cfloat"]
    [] tc = 3 -> [t EXCEPT !.sec = "cstrsz"] [] tc = 4 -> [t EXCEPT !.sec = "cbool"]
    [] OTHER -> Rej(s, "panic: invalid type")
StCInt(s) == LET u == UvAt(s) IN IF ~u.ok THEN Rej(s, "constant")
  ELSE PushConst(Go(s, u.n, ""), [t |-> "int", i |-> u.v, raw |-> IF u.v < 0 THEN Take(s, u.n) ELSE <<>>])
StCFloat(s) == IF Held(s) < 8 THEN Rej(s, "constant") ELSE PushConst(Go(s, 8, ""), [t |-> "float", i |-> 0, raw |-> Take(s, 8)])
StCStrSz(s) == LET u == UvAt(s) IN IF ~u.ok THEN Rej(s, "constant") ELSE IF u.v < 0 THEN [Rej(s, "ood") EXCEPT !.ood = TRUE]
  ELSE [Go(s, u.n, "cstr") EXCEPT !.m = u.v]
StCStr(s) == IF Held(s) < s.m THEN Rej(s, "constant") ELSE PushConst(Go(s, s.m, ""), [t |-> "str", i |-> 0, raw |-> Take(s, s.m)])
StCBool(s) == IF Held(s) < 1 THEN Rej(s, "constant") ELSE PushConst(Go(s, 1, ""), [t |-> "bool", i |-> IF At(s, 1) # 0 THEN 1 ELSE 0, raw |-> <<>>])
StPos(s) == LET u == UvAt(s) IN IF ~u.ok THEN Rej(s, "position")
  ELSE LET t == [Go(s, u.n, "pos") EXCEPT !.parts.positions = Append(@, u.v), !.k = @ - 1, !.idx = @ + 1] IN IF t.k = 0 THEN AfterPos(t) ELSE t
StLf(s) == LET u == UvAt(s) IN IF ~u.ok THEN Rej(s, "lfs")
  ELSE LET t == [Go(s, u.n, "lf") EXCEPT !.parts.lfs = Append(@, u.v), !.k = @ - 1, !.idx = @ + 1] IN IF t.k = 0 THEN AfterLfs(t) ELSE t
StTail(s) == [s EXCEPT !.out = "ok", !.cons = @ + (IF Held(s) >= 1 THEN 1 ELSE 0)]
Step(s) == CASE s.sec = "magic" -> StMagic(s) [] s.sec = "ver" -> StVer(s)
             [] s.sec = "namesz" -> StSize(s, "name size", "name") [] s.sec = "name" -> StName(s)
             [] s.sec = "codesz" -> StSize(s, "code size", "code") [] s.sec = "code" -> StCode(s)
             [] s.sec = "cn" -> StCount(s, "constants size", "ctype", AfterConsts)
             [] s.sec = "ctype" -> StCType(s) [] s.sec = "cint" -> StCInt(s) [] s.sec = "cfloat" -> StCFloat(s)
             [] s.sec = "cstrsz" -> StCStrSz(s) [] s.sec = "cstr" -> StCStr(s) [] s.sec = "cbool" -> StCBool(s)
             [] s.sec = "pn" -> StCount(s, "positions size", "pos", AfterPos) [] s.sec = "pos" -> StPos(s)
             [] s.sec = "ln" -> StCount(s, "lfs size", "lf", AfterLfs) [] s.sec = "lf" -> StLf(s)
             [] s.sec = "tail" -> StTail(s)
CanStep(s) == ~Done(s) /\ ~Blocked(s)
\* bufio's error is not sticky: the end of the source, once the loader has seen it (a step taken with less than it needs), is
\* forgotten, and the next step that needs more asks the source again (and is told the end again)
\* (forgotten exactly when it was consulted: a step that found what it needed in the buffer leaves a pending end pending)
StepL(s) == [Step(s) EXCEPT !.eof = IF Held(s) < Need(s) THEN FALSE ELSE s.eof]
\* the loader runs until it needs the source again (or is done)
RECURSIVE Run(_)
Run(s) == IF CanStep(s) THEN Run(StepL(s)) ELSE s
\* whole-file meaning under one delivery: reads of the given sizes in turn (cyclically), then the end
RECURSIVE LoadWith(_, _, _)
LoadWith(s, sizes, i) ==
  LET r == Run(s) IN
  IF Done(r) THEN r
  ELSE IF CanEof(r) THEN LoadWith(FillEof(r), sizes, i)
  ELSE LET want == IF sizes = <<>> THEN Len(r.file) ELSE sizes[(i % Len(sizes)) + 1]
           n == IF r.rd + want > Len(r.file) THEN Len(r.file) - r.rd ELSE want
       IN LoadWith(Fill(r, n), sizes, i + 1)
Load(file, sizes) == LoadWith(InitLoad(file), sizes, 0)
====
