---- MODULE BclGrammar ----
\* L1: recogniser/AST builder for the documented grammar over token classes (no error recovery), plus static rules.
EXTENDS BclSem
\* the reduced vocabulary: one representative per syntactic class (used for the exhaustive short strings)
VocabSmall == {"INT1", "INT2", "STR", "IDx", "IDstruct", "IDall", "var", "def", "eval", "print", "bind", "true", "not", "and",
          "=", "{", "}", "(", ")", "==", "+", "*", ":", "->", ";"}
\* the full vocabulary: every token kind and every operator spelling (each has its own code path in an implementation)
VocabFull == VocabSmall \cup {"or", "-", "/", "!=", "<", "<=", ">", ">=", "FLOAT", "false", "nil", "IDslice", "IDfirst", "IDlast", "INT01", "INT0x1"}
Vocab == VocabSmall
Spell(k) == CASE k = "INT1" -> <<49>> [] k = "INT2" -> <<50>> [] k = "STR" -> <<34, 115, 92, 92, 34>> [] k = "IDx" -> <<120>>
              [] k = "IDstruct" -> <<115, 116, 114, 117, 99, 116>> [] k = "IDall" -> <<97, 108, 108>>
              [] k = "var" -> <<118, 97, 114>> [] k = "def" -> <<100, 101, 102>> [] k = "eval" -> <<101, 118, 97, 108>>
              [] k = "print" -> <<112, 114, 105, 110, 116>> [] k = "bind" -> <<98, 105, 110, 100>> [] k = "true" -> <<116, 114, 117, 101>>
              [] k = "not" -> <<110, 111, 116>> [] k = "and" -> <<97, 110, 100>> [] k = "=" -> <<61>> [] k = "{" -> <<123>> [] k = "}" -> <<125>>
              [] k = "(" -> <<40>> [] k = ")" -> <<41>> [] k = "==" -> <<61, 61>> [] k = "+" -> <<43>> [] k = "*" -> <<42>>
              [] k = ":" -> <<58>> [] k = "->" -> <<45, 62>> [] k = ";" -> <<59>>
              [] k = "or" -> <<111, 114>> [] k = "-" -> <<45>> [] k = "/" -> <<47>> [] k = "!=" -> <<33, 61>> [] k = "<" -> <<60>> [] k = "<=" -> <<60, 61>>
              [] k = ">" -> <<62>> [] k = ">=" -> <<62, 61>> [] k = "FLOAT" -> <<50, 46, 53>> [] k = "false" -> <<102, 97, 108, 115, 101>> [] k = "nil" -> <<110, 105, 108>>
              [] k = "INT01" -> <<48, 49>> [] k = "INT0x1" -> <<48, 120, 49>>       \* other spellings of the value one: not the selector '1'
              [] k = "IDslice" -> <<115, 108, 105, 99, 101>> [] k = "IDfirst" -> <<102, 105, 114, 115, 116>> [] k = "IDlast" -> <<108, 97, 115, 116>>
RECURSIVE Src(_)
Src(ts) == IF ts = <<>> THEN <<>> ELSE Spell(Head(ts)) \o <<32>> \o Src(Tail(ts))
At(ts, i) == IF i <= Len(ts) THEN ts[i] ELSE "EOF"
IsIdent(k) == k \in {"IDx", "IDstruct", "IDall", "IDslice", "IDfirst", "IDlast"}
IdName(k) == CASE k = "IDx" -> "x" [] k = "IDstruct" -> "struct" [] k = "IDall" -> "all" [] k = "IDslice" -> "slice" [] k = "IDfirst" -> "first" [] k = "IDlast" -> "last"
BinPrec(k) == CASE k = "or" -> 2 [] k = "and" -> 3 [] k \in {"==", "!="} -> 5 [] k \in {"<", "<=", ">", ">="} -> 6 [] k \in {"+", "-"} -> 7 [] k \in {"*", "/"} -> 8 [] OTHER -> 0
Fl(i) == [ok |-> FALSE, i |-> i, e |-> NoE]
Ok(i, e) == [ok |-> TRUE, i |-> i, e |-> e]
RECURSIVE PExpr(_, _, _)
RECURSIVE PLoop(_, _, _, _)
PExpr(ts, i, minp) ==
  LET k == At(ts, i) IN
  LET left ==
    CASE k \in {"INT1", "INT2", "INT01", "INT0x1"} -> Ok(i + 1, Lit(IntV(IF k = "INT2" THEN 2 ELSE 1)))
      [] k = "STR" -> Ok(i + 1, Lit(StrV(<<115, 92>>)))
      [] k = "true" -> Ok(i + 1, Lit(BoolV(TRUE)))
      [] k = "false" -> Ok(i + 1, Lit(BoolV(FALSE)))
      [] k = "nil" -> Ok(i + 1, Lit(NilV))
      [] k = "FLOAT" -> Ok(i + 1, Lit(FloatV(5, 2)))
      [] IsIdent(k) -> (IF minp <= 1 /\ At(ts, i + 1) = "="
                        THEN LET r == PExpr(ts, i + 2, 1) IN IF r.ok THEN Ok(r.i, Asg(IdName(k), r.e)) ELSE r
                        ELSE Ok(i + 1, Id(IdName(k))))
      [] k = "(" -> (LET r == PExpr(ts, i + 1, 1) IN IF r.ok /\ At(ts, r.i) = ")" THEN Ok(r.i + 1, Par(r.e)) ELSE Fl(r.i))
      [] k \in {"+", "-"} -> (LET r == PExpr(ts, i + 1, 9) IN IF r.ok THEN Ok(r.i, Un(k, r.e)) ELSE r)
      [] k = "not" -> (LET r == PExpr(ts, i + 1, 4) IN IF r.ok THEN Ok(r.i, Un("not", r.e)) ELSE r)
      [] OTHER -> Fl(i)
  IN IF left.ok THEN PLoop(ts, left.i, minp, left.e) ELSE left
PLoop(ts, i, minp, left) ==
  LET k == At(ts, i) q == BinPrec(k) IN
  IF q > 0 /\ q >= minp THEN
     LET r == PExpr(ts, i + 1, IF k \in {"and", "or"} THEN q ELSE q + 1) IN
     IF r.ok THEN PLoop(ts, r.i, minp, Bin(k, left, r.e)) ELSE r
  ELSE Ok(i, left)
FlS(i) == [ok |-> FALSE, i |-> i, ss |-> <<>>]
RECURSIVE PItems(_, _, _, _)
PStmt(ts, i, depth) ==
  LET k == At(ts, i) IN
  CASE k = "var" -> (IF ~IsIdent(At(ts, i + 1)) THEN FlS(i + 1)
                     ELSE IF At(ts, i + 2) = "=" THEN LET r == PExpr(ts, i + 3, 1) IN
                                                      IF r.ok THEN [ok |-> TRUE, i |-> r.i, ss |-> <<SVar(IdName(At(ts, i + 1)), TRUE, r.e)>>] ELSE FlS(r.i)
                     ELSE [ok |-> TRUE, i |-> i + 2, ss |-> <<SVar(IdName(At(ts, i + 1)), FALSE, NoE)>>])
    [] k \in {"print", "eval"} -> (LET r == PExpr(ts, i + 1, 1) IN
                                   IF r.ok THEN [ok |-> TRUE, i |-> r.i, ss |-> <<IF k = "print" THEN SPrint(r.e) ELSE SEval(r.e)>>] ELSE FlS(r.i))
    [] k = "def" -> (IF ~IsIdent(At(ts, i + 1)) THEN FlS(i + 1)
                     ELSE LET j == IF At(ts, i + 2) = "STR" THEN i + 3 ELSE i + 2 IN
                          IF At(ts, j) # "{" THEN FlS(j)
                          ELSE LET b == PItems(ts, j + 1, depth + 1, <<>>) IN
                               IF b.ok /\ At(ts, b.i) = "}" THEN [ok |-> TRUE, i |-> b.i + 1, ss |-> <<SDef(IdName(At(ts, i + 1)), IF j = i + 3 THEN "n" ELSE "", b.ss)>>]
                               ELSE FlS(b.i))
    [] k = "bind" -> (IF ~IsIdent(At(ts, i + 1)) THEN FlS(i + 1)
                      ELSE LET hasSel == At(ts, i + 2) = ":"
                               selTok == At(ts, i + 3)
                               sel == IF ~hasSel THEN "none" ELSE IF selTok = "INT1" THEN "one" ELSE IF selTok = "IDall" THEN "all" ELSE IF selTok = "IDfirst" THEN "first" ELSE IF selTok = "IDlast" THEN "last" ELSE "bogus"
                               selOk == ~hasSel \/ selTok \in {"INT1", "INT2", "INT01", "INT0x1"} \/ IsIdent(selTok)
                               j == IF hasSel THEN i + 4 ELSE i + 2
                           IN IF ~selOk THEN FlS(i + 3) ELSE IF At(ts, j) # "->" THEN FlS(j) ELSE IF ~IsIdent(At(ts, j + 1)) THEN FlS(j + 1)
                              ELSE [ok |-> TRUE, i |-> j + 2, ss |-> <<SBind(IdName(At(ts, i + 1)), sel, IF At(ts, j + 1) = "IDstruct" THEN "struct" ELSE IF At(ts, j + 1) = "IDslice" THEN "slice" ELSE "bogus")>>])
    [] OTHER -> (IF depth = 0 THEN FlS(i)
                 ELSE LET r == PExpr(ts, i, 1) IN IF r.ok THEN [ok |-> TRUE, i |-> r.i, ss |-> <<SExpr(r.e)>>] ELSE FlS(r.i))
PItems(ts, i, depth, acc) ==
  IF At(ts, i) = "EOF" \/ (depth > 0 /\ At(ts, i) = "}") THEN [ok |-> TRUE, i |-> i, ss |-> acc]
  ELSE LET r == PStmt(ts, i, depth) IN
       IF ~r.ok THEN r
       ELSE PItems(ts, IF At(ts, r.i) = ";" THEN r.i + 1 ELSE r.i, depth, acc \o r.ss)
Derives(ts) == LET r == PItems(ts, 1, 0, <<>>) IN r.ok /\ r.i = Len(ts) + 1
Accepts(ts) == LET r == PItems(ts, 1, 0, <<>>) IN r.ok /\ r.i = Len(ts) + 1 /\ StaticOk(r.ss)

\* failure index of the recogniser: Len(ts)+1 means "the input ended too early" (a viable prefix)
FailIndex(ts) == LET r == PItems(ts, 1, 0, <<>>) IN IF r.ok /\ r.i = Len(ts) + 1 THEN 0 ELSE r.i
Viable(ts) == LET f == FailIndex(ts) IN f = 0 \/ f > Len(ts)
====
