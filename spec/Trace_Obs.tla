---- MODULE Trace_Obs ----
\* TV for C19: the extra text the introspection options write (all three on), classified by the harness into events, must be
\* exactly what BclVM and BclISA say about the *decoded real dump*:
\*   disasm events: one per instruction, in order, at the instruction boundaries of the code, with the mnemonic of BclISA, the
\*     position column (line:column of the instruction's source position by the stored line table, or "|"), the operand and the
\*     jump target as the format defines them;
\*   pstats: opsCreated = number of instructions, codeBytes = Len(code), constants = number of constants; tokens, localMax and
\*     depthMax as the compiler machine BclCompiler counts them on the tokens of the L1 lexer (also for rejected programs);
\*   trace events: exactly the executed path of BclVM (offset, mnemonic, operand depth before the instruction), one per step;
\*   xstats: opsRead = number of trace events = steps BclVM takes; tosMax, blockTosMax and pcFinal as the machine computes them.
\* A rejected program has no listing, no trace and no xstats.
EXTENDS BclVM, TLC, Json
LC == INSTANCE BclLineCol
Lx == INSTANCE BclLex
Cm == INSTANCE BclCompiler WITH LocalsMax <- 1024, JumpMax <- 65535
ToksOf(bs) == LET ts == Lx!RefTokens(bs) IN
              [i \in 1..Len(ts) |-> [k |-> ts[i].k, pos |-> ts[i].pos, msg |-> ts[i].msg,
                                     text |-> IF ts[i].k \in {"ERR", "FAIL", "EOF"} THEN <<>> ELSE SubSeq(bs, ts[i].from + 1, ts[i].pos)]]
\* what the compiler machine counts on the source of this program (parse statistics)
StatsOf(c) == [ood |-> c.ood, tokens |-> c.i, localMax |-> c.localMax, depthMax |-> c.depthMax]
CompStats(h) == IF Len(h.srcb) > 700 THEN [ood |-> TRUE, tokens |-> 0, localMax |-> 0, depthMax |-> 0]     \* long sources: counters not re-derived
                ELSE StatsOf(Cm!Compile(ToksOf(h.srcb)))
Trace == ndJsonDeserialize("trace.ndjson")
VARIABLES l, st, hdr, nextOff, ninstr, ntrace, xseen, cst
vars == <<l, st, hdr, nextOff, ninstr, ntrace, xseen, cst>>
ProgOf(h) == LET d == DecodeProg(h.dump) IN [code |-> d.code, consts |-> [i \in 1..Len(d.consts) |-> ValOf(d.consts[i])],
                                             positions |-> d.positions, lfs |-> d.lfs]
\* the position column of a listing line: "|" (logged as line 0) when the instruction's first byte has the position of the byte
\* before it, else line:column of that position by the stored line table
PosCol(p, off) == IF off > 0 /\ p.positions[off + 1] = p.positions[off] THEN <<0, 0>> ELSE LC!LineColOf(p.lfs, p.positions[off + 1])
\* the first numeric operand shown for an instruction, -1 when it has none; jumps also show their target
ShownArg(ins) == IF ins.op \in {"CONST", "GETFIELD", "SETFIELD", "GETLOCAL", "SETLOCAL", "POPN", "DEFBLOCK", "JUMP", "JFALSE", "LOOP", "BIND"} THEN ins.a ELSE -1
ShownTarget(ins, off) == IF ins.op \in {"JUMP", "JFALSE"} THEN off + 3 + ins.a ELSE IF ins.op = "LOOP" THEN off + 3 - ins.a ELSE -1
LineOk(p, e, off) == LET ins == Instr(p.code, off) IN
                     /\ e.op = ins.op /\ <<e.pl, e.pc>> = PosCol(p, off) /\ e.arg = ShownArg(ins) /\ e.target = ShownTarget(ins, off)
Idle == [done |-> TRUE, ood |-> FALSE]
NoStats == [ood |-> TRUE, tokens |-> 0, localMax |-> 0, depthMax |-> 0]
Init == l = 1 /\ st = Idle /\ hdr = [e |-> "none"] /\ nextOff = 0 /\ ninstr = 0 /\ ntrace = 0 /\ xseen = FALSE /\ cst = NoStats /\ TLCSet(1, 1)
\* the end of one program's events: the listing covered the whole code; the trace ran the machine to its end
Closed == IF hdr.e = "none" THEN TRUE
          ELSE IF ~hdr.accepted THEN ninstr = 0 /\ ntrace = 0 /\ ~xseen
          ELSE /\ nextOff = Len(st.prog.code)
               /\ (st.ood \/ (st.done /\ st.err.kind = hdr.err /\ xseen))
Reset == /\ l <= Len(Trace) /\ Trace[l].e = "reset" /\ Closed
         /\ hdr' = Trace[l] /\ st' = (IF Trace[l].accepted THEN InitVM(ProgOf(Trace[l])) ELSE Idle)
         /\ nextOff' = 0 /\ ninstr' = 0 /\ ntrace' = 0 /\ xseen' = FALSE /\ l' = l + 1
         /\ cst' = CompStats(Trace[l])
Header == /\ l <= Len(Trace) /\ Trace[l].e = "header" /\ hdr.accepted /\ ninstr = 0 /\ l' = l + 1 /\ UNCHANGED <<st, hdr, nextOff, ninstr, ntrace, xseen, cst>>
Disasm == /\ l <= Len(Trace) /\ Trace[l].e = "disasm" /\ hdr.accepted /\ ntrace = 0
          /\ Trace[l].off = nextOff /\ Fits(st.prog.code, nextOff)
          /\ LET ins == Instr(st.prog.code, nextOff) IN LineOk(st.prog, Trace[l], nextOff) /\ nextOff' = nextOff + ins.len
          /\ ninstr' = ninstr + 1 /\ l' = l + 1 /\ UNCHANGED <<st, hdr, ntrace, xseen, cst>>
TraceEv == /\ l <= Len(Trace) /\ Trace[l].e = "trace" /\ hdr.accepted /\ nextOff = Len(st.prog.code)
           /\ (st.ood \/ (~st.done /\ Trace[l].off = st.pc /\ Trace[l].depth = Len(st.stack) /\ LineOk(st.prog, Trace[l], st.pc)))
           /\ st' = (IF st.ood THEN st ELSE StepVM(st))
           /\ ntrace' = ntrace + 1 /\ l' = l + 1 /\ UNCHANGED <<hdr, nextOff, ninstr, xseen, cst>>
StatOk(e) ==
  IF e.grp = "pstats" THEN
     (IF cst.ood THEN TRUE
      ELSE IF e.key = "tokens" THEN e.n = cst.tokens
      ELSE IF e.key = "localMax" THEN e.n = cst.localMax
      ELSE IF e.key = "depthMax" THEN e.n = cst.depthMax
      ELSE IF ~hdr.accepted THEN TRUE
      ELSE CASE e.key = "opsCreated" -> e.n = ninstr
             [] e.key = "codeBytes" -> e.n = Len(st.prog.code)
             [] e.key = "constants" -> e.n = Len(st.prog.consts)
             [] OTHER -> TRUE)
  ELSE /\ hdr.accepted
       /\ (st.ood \/ (st.done /\ CASE e.key = "opsRead" -> e.n = ntrace /\ e.n = st.ops
                                   [] e.key = "tosMax" -> e.n = st.tosMax
                                   [] e.key = "blockTosMax" -> e.n = st.blockTosMax
                                   [] e.key = "pcFinal" -> e.n = (IF st.err.kind = "" THEN Len(st.prog.code) ELSE st.pc + Instr(st.prog.code, st.pc).len) \/ st.err.kind # ""
                                   [] OTHER -> TRUE))
Stat == /\ l <= Len(Trace) /\ Trace[l].e = "stat" /\ StatOk(Trace[l])
        /\ xseen' = (xseen \/ Trace[l].grp = "xstats") /\ l' = l + 1 /\ UNCHANGED <<st, hdr, nextOff, ninstr, ntrace, cst>>
Finish == l = Len(Trace) + 1 /\ Closed /\ l' = l + 1 /\ UNCHANGED <<st, hdr, nextOff, ninstr, ntrace, xseen, cst>>
Next == Reset \/ Header \/ Disasm \/ TraceEv \/ Stat \/ Finish
Spec == Init /\ [][Next]_vars
Mark == TLCSet(1, IF l > TLCGet(1) THEN l ELSE TLCGet(1))
Accepted == IF TLCGet(1) = Len(Trace) + 2 THEN TRUE ELSE PrintT(<<"REJECTED-AT", TLCGet(1), Len(Trace)>>) /\ FALSE
====
