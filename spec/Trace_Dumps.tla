---- MODULE Trace_Dumps ----
\* TV of real artefacts: a batch of dumps written by the real compiler (dumps.ndjson, one {"dump": [bytes]} per line) is
\*  (C14) decoded by the specification's independent decoder and must re-encode to the same bytes, with one position per code
\*        byte, non-decreasing positions and a strictly increasing line table;
\*  (C10) explored along *every* control-flow path by the abstract machine (pc, depth, bdepth) of BclISA, following both
\*        successors of every JFALSE; in every reachable state the instruction must be well-formed.
EXTENDS BclISA, FiniteSets, TLC, Json
Batch == ndJsonDeserialize("dumps.ndjson")
VARIABLES k, pc, depth, bdepth, halted, prog, bnd, dmap
vars == <<k, pc, depth, bdepth, halted, prog, bnd, dmap>>
\* decoding happens in a Next step (worker threads have the large stacks the recursive decoders need), not in Init
NoProg == [magicOk |-> FALSE, minor |-> 0, name |-> <<>>, code |-> <<>>, consts |-> <<>>, positions |-> <<>>, lfs |-> <<>>, end |-> 0]
Init == /\ k \in 1..Len(Batch) /\ pc = -1 /\ depth = 0 /\ bdepth = 0 /\ halted = FALSE
        /\ prog = NoProg /\ bnd = {} /\ dmap = <<>>
Load == /\ pc = -1 /\ pc' = 0 /\ UNCHANGED <<k, depth, bdepth, halted>>
        /\ prog' = DecodeProg(Batch[k].dump) /\ bnd' = Boundaries(prog'.code, 0, {})
        /\ dmap' = Flow(prog'.code, bnd', << [pc |-> 0, d |-> 0, b |-> 0] >>, <<>>)
Step == /\ ~halted /\ pc >= 0 /\ pc \in bnd
        /\ LET code == prog.code ins == Instr(code, pc) IN
           /\ depth' = depth + Effect(ins)
           /\ bdepth' = bdepth + (IF ins.op = "DEFBLOCK" THEN 1 ELSE IF ins.op = "ENDBLOCK" THEN -1 ELSE 0)
           /\ halted' = (ins.op = "RET")
           /\ \/ pc' = pc + ins.len + (IF ins.op = "JUMP" THEN ins.a ELSE IF ins.op = "LOOP" THEN -ins.a ELSE 0) /\ ins.op # "RET"
              \/ pc' = pc + ins.len + ins.a /\ ins.op = "JFALSE"
              \/ pc' = pc /\ ins.op = "RET"
        /\ UNCHANGED <<k, prog, bnd, dmap>>
Spec == Init /\ [][Load \/ Step]_vars
WellFormed == pc >= 0 =>
  /\ TileEnd(prog.code, 0) = Len(prog.code)             \* the instructions tile the code exactly
  /\ pc \in bnd                                          \* every path stays on instruction boundaries inside the code
  /\ InstrOk(prog, pc, depth, bdepth)
\* the depth is a function of the offset: all paths into an instruction agree
Unique == pc >= 0 => pc \in DOMAIN dmap /\ depth = dmap[pc].d /\ bdepth = dmap[pc].b
RoundTrip ==
  pc = 0 => LET bs == Batch[k].dump p == prog IN
            /\ p.magicOk /\ p.end = Len(bs) + 1 /\ EncodeProg(p) = bs
            /\ Len(p.positions) = Len(p.code)
            /\ \A i \in 1..(Len(p.lfs) - 1) : p.lfs[i] < p.lfs[i + 1]
            /\ \A i \in 1..(Len(p.positions) - 1) : p.positions[i] <= p.positions[i + 1]
            /\ Loadable(bs)
View == <<k, pc, depth, bdepth, halted>>
====
