---- MODULE Trace_Dumps ----
\* TV of real artefacts: a batch of dumps written by the real compiler (dumps.ndjson, one {"dump": [bytes]} per line) is
\*  (C14) decoded by the specification's independent decoder and must re-encode to the same bytes, with one position per code
\*        byte, non-decreasing positions and a strictly increasing line table;
\*  (C10) explored along *every* control-flow path by the abstract machine (pc, depth, bdepth) of BclISA, following both
\*        successors of every JFALSE; in every reachable state the instruction must be well-formed.
EXTENDS BclISA, FiniteSets, TLC, Json
Batch == ndJsonDeserialize("dumps.ndjson")
VARIABLES k, pc, depth, bdepth, halted, prog, bnd, dmap
vars == <<k, pc, depth, bdepth, halted, prog, bnd, dmap>>
\* forward data flow: the (depth, bdepth) with which each offset is first reached; the invariant Unique then demands that every
\* path reaches it with exactly these
Succ(code, w) ==
  LET ins == Instr(code, w.pc)
      d2 == w.d + Effect(ins)
      b2 == w.b + (IF ins.op = "DEFBLOCK" THEN 1 ELSE IF ins.op = "ENDBLOCK" THEN -1 ELSE 0)
      nx == w.pc + ins.len IN
  CASE ins.op = "RET" -> <<>>
    [] ins.op = "JUMP" -> << [pc |-> nx + ins.a, d |-> d2, b |-> b2] >>
    [] ins.op = "LOOP" -> << [pc |-> nx - ins.a, d |-> d2, b |-> b2] >>
    [] ins.op = "JFALSE" -> << [pc |-> nx, d |-> d2, b |-> b2], [pc |-> nx + ins.a, d |-> d2, b |-> b2] >>
    [] OTHER -> << [pc |-> nx, d |-> d2, b |-> b2] >>
RECURSIVE Flow(_, _, _, _)
Flow(code, B, work, map) ==
  IF work = <<>> THEN map
  ELSE LET w == Head(work) IN
       IF w.pc \in DOMAIN map \/ w.pc \notin B THEN Flow(code, B, Tail(work), map)
       ELSE Flow(code, B, Tail(work) \o Succ(code, w), map @@ (w.pc :> [d |-> w.d, b |-> w.b]))
Init == /\ k \in 1..Len(Batch) /\ pc = 0 /\ depth = 0 /\ bdepth = 0 /\ halted = FALSE
        /\ prog = DecodeProg(Batch[k].dump) /\ bnd = Boundaries(prog.code, 0, {})
        /\ dmap = Flow(prog.code, bnd, << [pc |-> 0, d |-> 0, b |-> 0] >>, <<>>)
Step == /\ ~halted /\ pc \in bnd
        /\ LET code == prog.code ins == Instr(code, pc) IN
           /\ depth' = depth + Effect(ins)
           /\ bdepth' = bdepth + (IF ins.op = "DEFBLOCK" THEN 1 ELSE IF ins.op = "ENDBLOCK" THEN -1 ELSE 0)
           /\ halted' = (ins.op = "RET")
           /\ \/ pc' = pc + ins.len + (IF ins.op = "JUMP" THEN ins.a ELSE IF ins.op = "LOOP" THEN -ins.a ELSE 0) /\ ins.op # "RET"
              \/ pc' = pc + ins.len + ins.a /\ ins.op = "JFALSE"
              \/ pc' = pc /\ ins.op = "RET"
        /\ UNCHANGED <<k, prog, bnd, dmap>>
Spec == Init /\ [][Step]_vars
IsStr(p, i) == i >= 0 /\ i < Len(p.consts) /\ p.consts[i + 1].t = "str"
WellFormed ==
  LET p == prog code == p.code IN
  /\ TileEnd(code, 0) = Len(code)                       \* the instructions tile the code exactly
  /\ pc \in bnd                                          \* every path stays on instruction boundaries inside the code
  /\ LET ins == Instr(code, pc) IN
     /\ ins.op # "BAD"
     /\ depth >= NeedsDepth(ins) /\ bdepth >= 0
     /\ ins.op \in {"GETLOCAL", "SETLOCAL"} => ins.a >= 0 /\ ins.a < depth
     /\ ins.op = "CONST" => ins.a >= 0 /\ ins.a < Len(p.consts)
     /\ ins.op \in {"GETFIELD", "SETFIELD", "BIND"} => IsStr(p, ins.a)
     /\ ins.op = "DEFBLOCK" => IsStr(p, ins.a) /\ IsStr(p, ins.b)
     /\ ins.op = "BIND" => (ins.b % 16) \in {1, 2, 3, 15} /\ (ins.b - (ins.b % 16)) \in {16, 32} /\ ~((ins.b % 16) = 15 /\ ins.b - 15 = 16)
     /\ ins.op = "RET" => depth = 0 /\ bdepth = 0 /\ pc + 1 = Len(code)
     /\ ins.op \in {"GETFIELD", "SETFIELD", "ENDBLOCK"} => bdepth >= 1
\* the depth is a function of the offset: all paths into an instruction agree
Unique == pc \in DOMAIN dmap /\ depth = dmap[pc].d /\ bdepth = dmap[pc].b
RoundTrip ==
  pc = 0 => LET bs == Batch[k].dump p == prog IN
            /\ p.magicOk /\ p.end = Len(bs) + 1 /\ EncodeProg(p) = bs
            /\ Len(p.positions) = Len(p.code)
            /\ \A i \in 1..(Len(p.lfs) - 1) : p.lfs[i] < p.lfs[i + 1]
            /\ \A i \in 1..(Len(p.positions) - 1) : p.positions[i] <= p.positions[i + 1]
            /\ Loadable(bs)
View == <<k, pc, depth, bdepth, halted>>
====
