---- MODULE BclValues ----
\* L1 values: uniformly shaped tagged records; exact ints, dyadic floats, byte strings; OOD marker.
EXTENDS Integers, Sequences, TLC
Lim == 1073741824            \* 2^30
MaxDen == 16384
V(t, n, d, s, e) == [t |-> t, n |-> n, d |-> d, s |-> s, e |-> e]
IntV(n) == IF n >= Lim \/ n <= -Lim THEN V("ood", 0, 1, <<>>, "int-range") ELSE V("int", n, 1, <<>>, "")
StrV(s) == V("str", 0, 1, s, "")
BoolV(b) == V("bool", IF b THEN 1 ELSE 0, 1, <<>>, "")
NilV == V("nil", 0, 1, <<>>, "")
ErrV(msg) == V("err", 0, 1, <<>>, msg)
OodV(why) == V("ood", 0, 1, <<>>, why)
Abs(x) == IF x < 0 THEN -x ELSE x
RECURSIVE Norm(_, _)
Norm(n, d) == IF d > 1 /\ n % 2 = 0 THEN Norm(n \div 2, d \div 2) ELSE <<n, d>>
FloatV(n, d) ==
  LET nd == Norm(n, d) IN
  IF Abs(nd[1]) >= Lim \/ nd[2] > MaxDen THEN OodV("float-range") ELSE V("float", nd[1], nd[2], <<>>, "")
IsNum(v) == v.t \in {"int", "float"}
IsBad(v) == v.t \in {"err", "ood"}
TypeName(v) == CASE v.t = "int" -> "int" [] v.t = "float" -> "float" [] v.t = "str" -> "string" [] v.t = "bool" -> "bool" [] v.t = "nil" -> "nil" [] OTHER -> "?"
Falsey(v) == CASE v.t = "bool" -> v.n = 0 [] v.t \in {"int", "float"} -> v.n = 0 [] v.t = "str" -> v.s = <<>> [] v.t = "nil" -> TRUE [] OTHER -> FALSE
TruncDiv(a, b) == LET q == Abs(a) \div Abs(b) IN IF (a < 0) # (b < 0) THEN -q ELSE q
IsPow2(x) == x \in {1, 2, 4, 8, 16, 32, 64, 128, 256, 512, 1024, 2048, 4096, 8192, 16384}
MaxI(a, b) == IF a > b THEN a ELSE b
\* numeric binary op on promoted operands; both operands numbers
NumOp(op, a, b) ==
  IF a.t = "int" /\ b.t = "int" THEN
     CASE op = "ADD" -> IntV(a.n + b.n) [] op = "SUB" -> IntV(a.n - b.n)
       [] op = "MUL" -> IF Abs(a.n) > 32767 \/ Abs(b.n) > 32767 THEN OodV("mul-range") ELSE IntV(a.n * b.n)
       [] op = "DIV" -> IF b.n = 0 THEN ErrV("division by int zero") ELSE IntV(TruncDiv(a.n, b.n))
       [] op = "EQ" -> BoolV(a.n = b.n) [] op = "LT" -> BoolV(a.n < b.n) [] op = "GT" -> BoolV(a.n > b.n)
  ELSE IF op = "DIV" /\ b.t = "int" /\ b.n = 0 THEN ErrV("division by int zero")
  ELSE IF Abs(a.n) > 32767 \/ Abs(b.n) > 32767 THEN OodV("float-op-range")
  ELSE LET D == MaxI(a.d, b.d)  x == a.n * (D \div a.d)  y == b.n * (D \div b.d) IN
       CASE op = "ADD" -> FloatV(x + y, D) [] op = "SUB" -> FloatV(x - y, D)
         [] op = "MUL" -> IF a.n * b.n = 0 /\ (a.n < 0 \/ b.n < 0) THEN OodV("neg-zero") ELSE FloatV(a.n * b.n, a.d * b.d)
         [] op = "DIV" -> IF b.n = 0 THEN OodV("inf-nan")
                          ELSE IF ~IsPow2(Abs(b.n)) THEN OodV("non-dyadic")
                          ELSE IF a.n = 0 /\ b.n < 0 THEN OodV("neg-zero")
                          ELSE IF a.d * Abs(b.n) > MaxDen THEN OodV("float-range")
                          ELSE FloatV((IF b.n < 0 THEN -1 ELSE 1) * a.n * b.d, a.d * Abs(b.n))
         [] op = "EQ" -> BoolV(x = y) [] op = "LT" -> BoolV(x < y) [] op = "GT" -> BoolV(x > y)
RECURSIVE SeqLess(_, _)
SeqLess(a, b) == IF b = <<>> THEN FALSE ELSE IF a = <<>> THEN TRUE
                 ELSE IF Head(a) # Head(b) THEN Head(a) < Head(b) ELSE SeqLess(Tail(a), Tail(b))
RECURSIVE Digits(_)
Digits(n) == IF n < 10 THEN <<48 + n>> ELSE Append(Digits(n \div 10), 48 + (n % 10))
Decimal(n) == IF n < 0 THEN <<45>> \o Digits(-n) ELSE Digits(n)
RECURSIVE FracDigits(_, _)
FracDigits(f, d) == IF f = 0 THEN <<>> ELSE <<48 + ((f * 10) \div d)>> \o FracDigits((f * 10) % d, d)
\* plain decimal of a dyadic (FormatFloat 'f', -1)
FloatPlain(v) == LET a == Abs(v.n) ip == a \div v.d fr == a % v.d IN
                 (IF v.n < 0 THEN <<45>> ELSE <<>>) \o Digits(ip) \o (IF fr = 0 THEN <<>> ELSE <<46>> \o FracDigits(fr, v.d))
\* the exact decimal expansion is Go's shortest round-trip text only while it has <= 15 significant digits
SigDigits(v) == LET a == Abs(v.n) ip == a \div v.d fr == a % v.d IN
                (IF ip = 0 THEN 0 ELSE Len(Digits(ip))) + Len(FracDigits(fr, v.d))
FloatTextOk(v) == SigDigits(v) <= 15
Bytes(str) == CASE str = "true" -> <<116, 114, 117, 101>> [] str = "false" -> <<102, 97, 108, 115, 101>> [] str = "<nil>" -> <<60, 110, 105, 108, 62>>
\* what print shows; "ood" when %v would use an exponent
PrintOf(v) ==
  CASE v.t = "int" -> [ok |-> TRUE, s |-> Decimal(v.n)]
    [] v.t = "float" -> IF ~FloatTextOk(v) \/ (v.n # 0 /\ ((Abs(v.n) \div v.d) >= 1000000 \/ (Abs(v.n) <= 1 /\ Abs(v.n) * 10000 < v.d))) THEN [ok |-> FALSE, s |-> <<>>]
                        ELSE [ok |-> TRUE, s |-> FloatPlain(v)]
    [] v.t = "str" -> [ok |-> TRUE, s |-> v.s]
    [] v.t = "bool" -> [ok |-> TRUE, s |-> Bytes(IF v.n = 1 THEN "true" ELSE "false")]
    [] v.t = "nil" -> [ok |-> TRUE, s |-> Bytes("<nil>")]
RECURSIVE Rep(_, _)
Rep(s, k) == IF k = 0 THEN <<>> ELSE s \o Rep(s, k - 1)
InvalidTypes(op, a, b) == ErrV(op \o ": invalid types: " \o TypeName(a) \o ", " \o TypeName(b))
\* VM-level binary operation (the six real opcodes + EQ); a, b are plain values
BinOp(op, a, b) ==
  IF IsNum(a) /\ IsNum(b) THEN NumOp(op, a, b)
  ELSE IF op \in {"LT", "GT", "ADD"} /\ a.t = "str" /\ b.t = "str" THEN
       (CASE op = "LT" -> BoolV(SeqLess(a.s, b.s)) [] op = "GT" -> BoolV(SeqLess(b.s, a.s)) [] op = "ADD" -> StrV(a.s \o b.s))
  ELSE IF op = "ADD" /\ a.t = "str" /\ b.t = "int" THEN StrV(a.s \o Decimal(b.n))
  ELSE IF op = "ADD" /\ a.t = "str" /\ b.t = "float" THEN (IF FloatTextOk(b) THEN StrV(a.s \o FloatPlain(b)) ELSE OodV("float-text"))
  ELSE IF op = "ADD" /\ a.t = "str" /\ b.t = "nil" THEN a
  ELSE IF op = "MUL" /\ a.t = "str" /\ b.t = "int" THEN
       (IF b.n < 0 THEN ErrV("MUL: negative repeat count") ELSE IF b.n * Len(a.s) > 64 THEN OodV("long-string") ELSE StrV(Rep(a.s, b.n)))
  ELSE IF op = "EQ" THEN BoolV(a = b)
  ELSE InvalidTypes(op, a, b)
Not(v) == BoolV(Falsey(v))
Neg(v) == IF v.t = "int" THEN IntV(-v.n)
          ELSE IF v.t = "float" THEN (IF v.n = 0 THEN OodV("neg-zero") ELSE FloatV(-v.n, v.d))
          ELSE ErrV("NEG: invalid type: " \o TypeName(v) \o ", expected number")
UnPlus(v) == IF IsNum(v) THEN v ELSE ErrV("UNPLUS: invalid type: " \o TypeName(v) \o ", expected number")
====
