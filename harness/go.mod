module verif/harness

go 1.23

toolchain go1.23.5

require (
	github.com/wkhere/bcl v0.0.0
	pgregory.net/rapid v1.3.0
)

require github.com/mohae/uvarint v0.0.0-20160208145430-c3f9e62bf2b0 // indirect

replace github.com/wkhere/bcl => /repo
