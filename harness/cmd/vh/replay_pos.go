package main

import (
	"bytes"
	"encoding/json"
	"fmt"
	"io"
	"regexp"
	"strconv"
	"strings"

	"github.com/wkhere/bcl"
)

// ---- the "pos" family (C08): a source built from a layout prefix and a statement whose offending token is known by construction;
// the specification gives line, column and quoted text; the harness extracts them from the real diagnostics (whole input, chunked
// ParseFile, and after dump + load) and compares.

type posCase struct {
	Fam    string `json:"fam"`
	Name   string `json:"name"`
	Class  string `json:"class"`
	PKind  string `json:"pkind"`
	PN     int    `json:"pn"`
	PBytes []int  `json:"pbytes"`
	Txt    []int  `json:"txt"`
	Tok    []int  `json:"tok"`
	Line   int    `json:"line"`
	Col    int    `json:"col"`
	NT     bool   `json:"nt"`
}

var (
	reDiag = regexp.MustCompile(`^line (\d+):(\d+): error( at '(.*)'| at end)?: `)
	reRT   = regexp.MustCompile(`^runtime error: line (\d+):(\d+): `)
	reWarn = regexp.MustCompile(`^WARNING: line (\d+):(\d+): `)
)

func (c *posCase) source() []byte {
	var pre []byte
	switch c.PKind {
	case "bytes":
		pre = bytesOf(c.PBytes)
	case "spaces":
		pre = bytes.Repeat([]byte(" "), c.PN)
	case "commentline":
		pre = []byte("#" + strings.Repeat(".", c.PN-2) + "\n")
	case "newlines":
		pre = bytes.Repeat([]byte("\n"), c.PN)
	}
	return append(pre, bytesOf(c.Txt)...)
}

type posObs struct {
	Mode  string `json:"mode"`
	Found bool   `json:"found"`
	Line  int    `json:"line"`
	Col   int    `json:"col"`
	Tok   string `json:"tok"`
	AtEnd bool   `json:"at_end"`
	Text  string `json:"text"`
	Panic string `json:"panic,omitempty"`
}

// locate extracts the location the real code reported for the class of diagnostic the case is about
func locate(class, log string, err error) (o posObs) {
	atoi := func(s string) int { n, _ := strconv.Atoi(s); return n }
	switch class {
	case "compile", "atend", "lex":
		first := strings.SplitN(log, "\n", 2)[0]
		o.Text = first
		if m := reDiag.FindStringSubmatch(first); m != nil {
			o.Found, o.Line, o.Col = true, atoi(m[1]), atoi(m[2])
			o.AtEnd = m[3] == " at end"
			if strings.HasPrefix(m[3], " at '") {
				o.Tok = m[4]
			}
		}
	case "runtime":
		if err != nil {
			o.Text = err.Error()
			if m := reRT.FindStringSubmatch(o.Text); m != nil {
				o.Found, o.Line, o.Col = true, atoi(m[1]), atoi(m[2])
			}
		}
	case "warning":
		for _, l := range strings.Split(log, "\n") {
			if m := reWarn.FindStringSubmatch(l); m != nil {
				o.Found, o.Line, o.Col, o.Text = true, atoi(m[1]), atoi(m[2]), l
			}
		}
	}
	return o
}

func posModes(c *posCase, src []byte) []posObs {
	var obs []posObs
	guard := func(mode string, f func() (string, error)) {
		var o posObs
		func() {
			defer func() {
				if r := recover(); r != nil {
					o.Panic = fmt.Sprint(r)
				}
			}()
			log, err := f()
			o = locate(c.Class, log, err)
		}()
		o.Mode = mode
		obs = append(obs, o)
	}
	guard("Interpret", func() (string, error) {
		var lg bytes.Buffer
		_, _, err := bcl.Interpret(src, bcl.OptLogger(&lg), bcl.OptOutput(io.Discard))
		return lg.String(), err
	})
	sizes := []int{7, 4096}
	if len(src) < 200 {
		sizes = []int{1, 2, 3, 5, 7, 4096} // short sources: every small read size, so that boundaries fall inside multi-byte characters too
	}
	for _, m := range sizes {
		m := m
		guard(fmt.Sprintf("InterpretFile(reads of %d)", m), func() (string, error) {
			var lg bytes.Buffer
			f := &scriptedFile{name: "p.bcl", steps: chopped(string(src), m, nil)}
			_, _, err := bcl.InterpretFile(f, bcl.OptLogger(&lg), bcl.OptOutput(io.Discard))
			return lg.String(), err
		})
	}
	if c.Class == "runtime" || c.Class == "warning" {
		guard("Dump+LoadProg+Execute", func() (string, error) {
			p, err := bcl.Parse(src, "p", bcl.OptLogger(io.Discard), bcl.OptOutput(io.Discard))
			if err != nil {
				return "", err
			}
			var d bytes.Buffer
			if err := p.Dump(&d); err != nil {
				return "", err
			}
			var lg bytes.Buffer
			q, err := bcl.LoadProg(&d, "p", bcl.OptLogger(&lg), bcl.OptOutput(io.Discard))
			if err != nil {
				return "", err
			}
			_, _, err = bcl.Execute(q)
			return lg.String(), err
		})
		// the same dump read with the Load method into a Prog that held a longer program with many more lines before
		guard("Dump+Load into a used Prog+Execute", func() (string, error) {
			p, err := bcl.Parse(src, "p", bcl.OptLogger(io.Discard), bcl.OptOutput(io.Discard))
			if err != nil {
				return "", err
			}
			var d bytes.Buffer
			if err := p.Dump(&d); err != nil {
				return "", err
			}
			var lg bytes.Buffer
			old := strings.Repeat("\n", 60) + strings.Repeat("eval 1\n", 70000/7) // more line feeds than any case, at larger offsets too
			q, err := bcl.Parse([]byte(old), "used", bcl.OptLogger(&lg), bcl.OptOutput(io.Discard))
			if err != nil {
				return "", err
			}
			if err := q.Load(&d); err != nil {
				return "", err
			}
			_, _, err = bcl.Execute(q)
			return lg.String(), err
		})
	}
	return obs
}

func judgePos(c *posCase, o posObs) (why, shape string) {
	want := fmt.Sprintf("%d:%d", c.Line, c.Col)
	switch {
	case o.Panic != "":
		return o.Mode + " panicked: " + o.Panic, "pos:panic"
	case !o.Found:
		return fmt.Sprintf("%s: no %s diagnostic with a location (%q)", o.Mode, c.Class, o.Text), "pos:missing:" + c.Class
	case o.Line != c.Line || o.Col != c.Col:
		return fmt.Sprintf("%s reports %d:%d, the offending token ends at %s (%s)", o.Mode, o.Line, o.Col, want, o.Text), "pos:location:" + c.Class
	case c.Class == "compile" && o.Tok != string(bytesOf(c.Tok)):
		return fmt.Sprintf("%s quotes '%s', the source text ending at %s is '%s'", o.Mode, o.Tok, want, string(bytesOf(c.Tok))), "pos:quoted"
	case c.Class == "atend" && !o.AtEnd:
		return o.Mode + ": end of input is not designated by 'at end': " + o.Text, "pos:atend"
	}
	return "", ""
}

func replayPos(args []string) int {
	op := parseOpts(args)
	s := newSummary("pos")
	eachCase(openIn(op), func(raw []byte) {
		var c posCase
		if err := json.Unmarshal(raw, &c); err != nil {
			s.Skipped++
			return
		}
		if !s.note(raw, c.NT, raw) {
			return
		}
		s.Classes[c.Class]++
		src := c.source()
		for _, o := range posModes(&c, src) {
			s.Judged++
			if why, shape := judgePos(&c, o); why != "" {
				s.bad(why, shape, raw, o, true)
				break
			}
		}
		// the stored line table equals the newline offsets of the source (accepted programs)
		if c.Class == "runtime" || c.Class == "warning" {
			p, err := bcl.Parse(src, "p", bcl.OptLogger(io.Discard), bcl.OptOutput(io.Discard))
			if err == nil {
				var d bytes.Buffer
				p.Dump(&d)
				if got, want := lfsOf(d.Bytes()), newlineOffsets(src); fmt.Sprint(got) != fmt.Sprint(want) {
					s.bad("the line table stored in the program is not the set of newline offsets of the source", "pos:linetable", raw, map[string]any{"first_stored": head(got), "first_true": head(want), "n_stored": len(got), "n_true": len(want)}, true)
				}
			}
		}
	})
	return s.write(op)
}

func head(x []int) []int {
	if len(x) > 8 {
		return x[:8]
	}
	return x
}

func newlineOffsets(src []byte) []int {
	out := []int{}
	for i, b := range src {
		if b == '\n' {
			out = append(out, i)
		}
	}
	return out
}

// lfsOf cuts the line table out of a dump
func lfsOf(d []byte) []int {
	i := 4
	v, n := uv(d[i:])
	i += n + v
	v, n = uv(d[i:])
	i += n + v
	d2 := d[i:]
	cc := codeAndConstsLen(d)
	_ = d2
	i = cc
	cnt, n := uv(d[i:]) // positions
	i += n
	for k := 0; k < cnt; k++ {
		_, n := uv(d[i:])
		i += n
	}
	cnt, n = uv(d[i:])
	i += n
	out := []int{}
	for k := 0; k < cnt; k++ {
		v, n := uv(d[i:])
		out = append(out, v)
		i += n
	}
	return out
}

// codeAndConstsLen: offset just after the constants section
func codeAndConstsLen(d []byte) int {
	i := 4
	v, n := uv(d[i:])
	i += n + v
	return i + len(codeAndConsts(d))
}

func init() { register("replay-pos", replayPos) }
