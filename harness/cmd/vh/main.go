// vh — the Go side of the bcl verification framework.
//
// It is deliberately dumb: it renders/decodes cases, runs the real bcl code built from /repo's working tree,
// records what happened, and compares observations with what the TLA+ specification predicted (GEN -> replay),
// or writes what happened as ndjson for TLC to judge (TV). All judgement about *what is right* lives in /verif/spec.
package main

import (
	"bufio"
	"crypto/sha256"
	"encoding/hex"
	"encoding/json"
	"fmt"
	"io"
	"os"
	"sort"
	"strconv"
	"strings"
)

type cmdFn func(args []string) int

var commands = map[string]cmdFn{}

func register(name string, f cmdFn) { commands[name] = f }

func main() {
	if len(os.Args) < 2 {
		names := []string{}
		for k := range commands {
			names = append(names, k)
		}
		sort.Strings(names)
		fmt.Fprintln(os.Stderr, "usage: vh <command> [args]; commands:", strings.Join(names, " "))
		os.Exit(2)
	}
	f, ok := commands[os.Args[1]]
	if !ok {
		fmt.Fprintln(os.Stderr, "vh: unknown command", os.Args[1])
		os.Exit(2)
	}
	os.Exit(f(os.Args[2:]))
}

// ---- options: --key value pairs

type opts map[string]string

func parseOpts(args []string) opts {
	o := opts{}
	for i := 0; i < len(args); i++ {
		a := args[i]
		if strings.HasPrefix(a, "--") {
			k := a[2:]
			if j := strings.IndexByte(k, '='); j >= 0 {
				o[k[:j]] = k[j+1:]
			} else if i+1 < len(args) && !strings.HasPrefix(args[i+1], "--") {
				o[k] = args[i+1]
				i++
			} else {
				o[k] = "1"
			}
		}
	}
	return o
}

func (o opts) str(k, def string) string {
	if v, ok := o[k]; ok {
		return v
	}
	return def
}

func (o opts) int(k string, def int) int {
	if v, ok := o[k]; ok {
		n, err := strconv.Atoi(v)
		if err == nil {
			return n
		}
	}
	return def
}

// ---- case input: lines `<<"CASE", "...json...">>` printed by TLC, or plain json lines

func eachCase(r io.Reader, fn func(raw []byte)) error {
	br := bufio.NewReaderSize(r, 1<<20)
	for {
		line, err := br.ReadString('\n')
		if len(line) > 0 {
			line = strings.TrimRight(line, "\r\n")
			if strings.HasPrefix(line, `<<"CASE", `) {
				q := strings.TrimSuffix(strings.TrimPrefix(line, `<<"CASE", `), ">>")
				js, uerr := strconv.Unquote(q)
				if uerr == nil {
					fn([]byte(js))
				} else {
					fmt.Fprintln(os.Stderr, "vh: cannot unquote case line:", uerr)
				}
			} else if strings.HasPrefix(line, "{") {
				fn([]byte(line))
			}
		}
		if err != nil {
			if err == io.EOF {
				return nil
			}
			return err
		}
	}
}

func openIn(o opts) io.Reader {
	p := o.str("in", "-")
	if p == "-" {
		return os.Stdin
	}
	f, err := os.Open(p)
	if err != nil {
		fmt.Fprintln(os.Stderr, "vh:", err)
		os.Exit(2)
	}
	return f
}

// ---- summary written for the runner

type mismatch struct {
	Why       string          `json:"why"`
	Shape     string          `json:"shape"`
	Case      json.RawMessage `json:"case"`
	Observed  any             `json:"observed"`
	Confirmed bool            `json:"confirmed"`
}

type summary struct {
	Family        string            `json:"family"`
	Cases         int               `json:"cases"`
	Judged        int               `json:"judged"`
	OOD           int               `json:"ood"`
	Skipped       int               `json:"skipped"`
	Distinct      int               `json:"distinct"`
	Nontrivial    int               `json:"distinct_nontrivial"`
	MismatchCount int               `json:"mismatch_count"`
	ShapeCounts   map[string]int    `json:"shape_counts"`
	Mismatches    []mismatch        `json:"mismatches"`
	Drift         map[string]int    `json:"drift"`
	DriftSamples  []string          `json:"drift_samples"`
	Classes       map[string]int    `json:"classes"`
	Samples       []json.RawMessage `json:"samples"`
	Extra         map[string]any    `json:"extra,omitempty"`

	seen map[[12]byte]bool
}

func newSummary(fam string) *summary {
	return &summary{Family: fam, ShapeCounts: map[string]int{}, Drift: map[string]int{}, Classes: map[string]int{},
		seen: map[[12]byte]bool{}, Extra: map[string]any{}}
}

// note registers a case; returns true when it was not seen before
func (s *summary) note(key []byte, nontrivial bool, raw []byte) bool {
	s.Cases++
	h := sha256.Sum256(key)
	var k [12]byte
	copy(k[:], h[:12])
	if s.seen[k] {
		return false
	}
	s.seen[k] = true
	s.Distinct++
	if nontrivial {
		s.Nontrivial++
	}
	if len(s.Samples) < 3 || (nontrivial && len(s.Samples) < 6 && s.Distinct%997 == 0) {
		s.Samples = append(s.Samples, json.RawMessage(append([]byte{}, raw...)))
	}
	return true
}

func (s *summary) bad(why, shape string, raw []byte, observed any, confirmed bool) {
	s.MismatchCount++
	s.ShapeCounts[shape]++
	if s.ShapeCounts[shape] <= 5 && len(s.Mismatches) < 200 {
		if _, err := json.Marshal(observed); err != nil {
			observed = fmt.Sprintf("%+v", observed) // values JSON cannot carry (an infinite or NaN float in a result)
		}
		s.Mismatches = append(s.Mismatches, mismatch{why, shape, json.RawMessage(append([]byte{}, raw...)), observed, confirmed})
	}
}

func (s *summary) drift(kind, sample string) {
	s.Drift[kind]++
	if len(s.DriftSamples) < 10 {
		s.DriftSamples = append(s.DriftSamples, kind+": "+sample)
	}
}

func (s *summary) write(o opts) int {
	p := o.str("result", "-")
	b, _ := json.MarshalIndent(s, "", " ")
	if p == "-" {
		os.Stdout.Write(b)
		os.Stdout.WriteString("\n")
	} else if err := os.WriteFile(p, b, 0o644); err != nil {
		fmt.Fprintln(os.Stderr, "vh:", err)
		return 2
	}
	return 0
}

// thinKeep: a seeded thinning by content (about one in `stride`), independent of the order in which the cases arrive, so that
// no source of a concatenated case stream is starved by a cap because it comes late
func thinKeep(src []byte, stride, seed int) bool {
	if stride <= 1 {
		return true
	}
	h := sha256.Sum256(src)
	return (int(h[0])<<8|int(h[1])+seed)%stride == 0
}

func sha(b []byte) string {
	h := sha256.Sum256(b)
	return hex.EncodeToString(h[:8])
}

func bytesOf(xs []int) []byte {
	o := make([]byte, len(xs))
	for i, x := range xs {
		o[i] = byte(x)
	}
	return o
}

func intsOf(b []byte) []int {
	o := make([]int, len(b))
	for i, x := range b {
		o[i] = int(x)
	}
	return o
}
