package main

import (
	"bufio"
	"bytes"
	"encoding/json"
	"fmt"
	"math/rand"
	"os"
	"regexp"
	"strconv"
	"strings"

	"github.com/wkhere/bcl"
)

// drive-comp: what the real Parse does on a batch of sources — accepted or not, the dump, every diagnostic parsed into its parts —
// for Chk_Comp (translation validation against the L1 lexer + L2 compiler machine). Sources: seeded random programs of progen with
// 0..2 token mutations, plus the sources of any case file given with --in.

var tokRe = regexp.MustCompile(`"[^"]*"|[A-Za-z_0-9.]+|==|!=|<=|>=|->|\S`)
var junkToks = []string{")", "(", "=", "{", "}", "var", "print", "def", "eval", "bind", ";", "+", "-", "and", "or", "not", "1", "x", ":", "->", "$", "1a", "!", "\"s\"", "0x", "08"}
var diagFullRe = regexp.MustCompile(`^line (\d+):(\d+): error(?: at '(.*)'| at (end))?: (.*)$`)

func mutateTok(r *rand.Rand, src string) string {
	idx := tokRe.FindAllStringIndex(src, -1)
	if len(idx) == 0 {
		return src
	}
	i := idx[r.Intn(len(idx))]
	switch r.Intn(4) {
	case 0:
		return src[:i[0]] + src[i[1]:]
	case 1:
		return src[:i[0]] + junkToks[r.Intn(len(junkToks))] + " " + src[i[0]:]
	case 2:
		return src[:i[1]] + junkToks[r.Intn(len(junkToks))] + src[i[1]:] // glued right after a token (lexical errors next to tokens)
	}
	return src[:i[0]] + junkToks[r.Intn(len(junkToks))] + src[i[1]:]
}

// the lexer's messages carry the offending text; the specification compares their stems
func msgStem(m string) string {
	for _, p := range []string{"unknown char", "invalid syntax", "expected char", "unterminated quoted string", "need more digits after a dot", "need more digits for an exponent"} {
		if strings.HasPrefix(m, p) {
			if p == "expected char" {
				return "expected char to start token"
			}
			return p
		}
	}
	return m
}

func compRecord(src []byte) (map[string]any, bool) {
	var lg bytes.Buffer
	var p *bcl.Prog
	var err error
	panicked := false
	func() {
		defer func() {
			if x := recover(); x != nil {
				panicked = true
			}
		}()
		p, err = bcl.Parse(src, "p", bcl.OptLogger(&lg), bcl.OptOutput(&bytes.Buffer{}))
	}()
	if panicked {
		return nil, false
	}
	rec := map[string]any{"src": intsOf(src), "ok": err == nil, "dump": []int{}, "diags": []any{}, "text": string(src)}
	if err == nil {
		var d bytes.Buffer
		if p.Dump(&d) != nil || d.Len() > 3000 {
			return nil, false
		}
		rec["dump"] = intsOf(d.Bytes())
	}
	diags := []any{}
	if lg.Len() > 0 {
		for _, l := range strings.Split(strings.TrimRight(lg.String(), "\n"), "\n") {
			m := diagFullRe.FindStringSubmatch(l)
			if m == nil {
				return nil, false
			}
			li, _ := strconv.Atoi(m[1])
			co, _ := strconv.Atoi(m[2])
			at, tok := "none", []int{}
			if m[4] == "end" {
				at = "end"
			} else if strings.Contains(l, ": error at '") {
				at, tok = "tok", intsOf([]byte(m[3]))
			}
			diags = append(diags, map[string]any{"line": li, "col": co, "at": at, "tok": tok, "msg": msgStem(m[5])})
		}
	}
	rec["diags"] = diags
	return rec, true
}

func driveComp(args []string) int {
	op := parseOpts(args)
	n := op.int("n", 500)
	seed := int64(op.int("seed", 1))
	max := op.int("max", 3000)
	stride := op.int("stride", 1)
	outp := op.str("out", "progs.ndjson")
	f, err := os.Create(outp)
	if err != nil {
		fmt.Fprintln(os.Stderr, err)
		return 2
	}
	defer f.Close()
	w := bufio.NewWriterSize(f, 1<<20)
	defer w.Flush()
	enc := json.NewEncoder(w)
	s := newSummary("drive-comp")
	emit := func(src []byte, raw []byte) {
		if len(src) > 600 || !s.note(src, true, raw) {
			return
		}
		rec, ok := compRecord(src)
		if !ok {
			return
		}
		enc.Encode(rec)
		s.Judged++
		if rec["ok"].(bool) {
			s.Classes["accepted"]++
		} else {
			s.Classes["rejected"]++
		}
	}
	if p := op.str("in", ""); p != "" {
		seen := 0
		eachCase(openIn(op), func(raw []byte) {
			var c struct {
				Src []int `json:"src"`
			}
			if json.Unmarshal(raw, &c) != nil || len(c.Src) == 0 || s.Judged >= max {
				return
			}
			seen++
			if thinKeep(bytesOf(c.Src), stride, int(seed)) {
				emit(bytesOf(c.Src), raw)
			}
		})
	}
	g := newProgen(seed)
	g.maxDepth = 3
	for i := 0; i < n; i++ {
		src := g.program(1 + g.r.Intn(5))
		for k := g.r.Intn(3); k > 0; k-- {
			src = mutateTok(g.r, src)
		}
		emit([]byte(src), []byte(strconv.Quote(src)))
	}
	s.Extra["programs"] = s.Judged
	return s.write(op)
}

func init() { register("drive-comp", driveComp) }
