package main

import (
	"bytes"
	"encoding/json"
	"fmt"
	"regexp"

	"github.com/wkhere/bcl"
)

// ---- the "layout" family (C20)

type layoutCase struct {
	Fam  string `json:"fam"`
	Kind string `json:"kind"`
	A    []int  `json:"a"`
	B    []int  `json:"b"`
	Out  []int  `json:"out"`
	NT   bool   `json:"nt"`
}

// uvarint of the sqlite4 kind, only what is needed to find the sections of a dump (a dumb codec, no judgement)
func uv(b []byte) (v, n int) {
	a0 := int(b[0])
	switch {
	case a0 <= 240:
		return a0, 1
	case a0 <= 248:
		return 240 + 256*(a0-241) + int(b[1]), 2
	case a0 == 249:
		return 2288 + 256*int(b[1]) + int(b[2]), 3
	}
	k := a0 - 247
	v = 0
	for i := 1; i <= k; i++ {
		v = v<<8 | int(b[i])
	}
	return v, k + 1
}

// codeAndConsts cuts the code and constants sections out of a dump
func codeAndConsts(d []byte) []byte {
	i := 4
	v, n := uv(d[i:]) // name
	i += n + v
	start := i
	v, n = uv(d[i:]) // code
	i += n + v
	cnt, n := uv(d[i:]) // constants
	i += n
	for k := 0; k < cnt; k++ {
		switch d[i] {
		case 0:
			i++
		case 1:
			_, n := uv(d[i+1:])
			i += 1 + n
		case 2:
			i += 9
		case 3:
			v, n := uv(d[i+1:])
			i += 1 + n + v
		case 4:
			i += 2
		default:
			return nil
		}
	}
	return d[start:i]
}

var rePos = regexp.MustCompile(`line \d+:\d+`)

func layoutRun(src []byte) (o map[string]string) {
	o = map[string]string{}
	defer func() {
		if r := recover(); r != nil {
			o["panic"] = fmt.Sprint(r)
		}
	}()
	var lg bytes.Buffer
	p, err := bcl.Parse(src, "l", bcl.OptLogger(&lg), bcl.OptOutput(&bytes.Buffer{}))
	if err != nil {
		o["rejected"] = "yes"
		return o
	}
	var d bytes.Buffer
	p.Dump(&d)
	o["code+consts"] = fmt.Sprintf("%x", codeAndConsts(d.Bytes()))
	ob := interpretGuarded(src)
	o["out"] = ob.Out
	o["err"] = rePos.ReplaceAllString(ob.Err, "line L:C")
	o["res"] = canonBlocks(ob.res) + " / " + canonBinding(ob.bind)
	o["warnings"] = fmt.Sprint(bytes.Count([]byte(ob.Log), []byte("WARNING: ")))
	if ob.Panic != "" {
		o["panic"] = ob.Panic
	}
	return o
}

func replayLayout(args []string) int {
	op := parseOpts(args)
	s := newSummary("layout")
	eachCase(openIn(op), func(raw []byte) {
		var c layoutCase
		if err := json.Unmarshal(raw, &c); err != nil {
			s.Skipped++
			return
		}
		if !s.note(raw, c.NT, raw) {
			return
		}
		s.Judged++
		s.Classes[c.Kind]++
		a := layoutRun(bytesOf(c.A))
		if a["panic"] != "" {
			return // C06's subject
		}
		switch c.Kind {
		case "pair":
			b := layoutRun(bytesOf(c.B))
			for _, k := range []string{"rejected", "code+consts", "out", "err", "res", "warnings", "panic"} {
				if a[k] != b[k] {
					s.bad("two sources that differ only in layout differ in "+k, "layout:"+k, raw, map[string]any{"a": a, "b": b, "srcA": string(bytesOf(c.A)), "srcB": string(bytesOf(c.B))}, true)
					return
				}
			}
		default:
			want := string(bytesOf(c.Out))
			if a["rejected"] != "" || a["err"] != "" || a["out"] != want {
				s.bad(fmt.Sprintf("output %q (err %q), the language says %q", a["out"], a["err"], want), "layout:"+c.Kind, raw, a, true)
			}
		}
	})
	return s.write(op)
}

func init() { register("replay-layout", replayLayout) }
