package main

import (
	"bytes"
	"fmt"
	"io"
	"math/rand"
	"reflect"
	"sync"

	"github.com/wkhere/bcl"
)

// drive-conc (C12, second half): N independent callers running concurrently — different inputs through Interpret and
// InterpretFile, and one shared Prog executed from several goroutines (its output writer is safe for concurrent use) —
// must get exactly the results a sequential run gives. Meant to be run from the -race build: the race detector watches
// all memory, the comparison below watches the results.

type lockedWriter struct {
	mu sync.Mutex
	b  bytes.Buffer
}

func (w *lockedWriter) Write(p []byte) (int, error) {
	w.mu.Lock()
	defer w.mu.Unlock()
	return w.b.Write(p)
}

// obsOpts: in every other round the concurrent callers also ask for the listing, the trace and the statistics, each into its own writer
var obsOpts bool

func interpOutcome(src []byte, viaFile bool, seed int64) string {
	var out, lg bytes.Buffer
	var res []bcl.Block
	var bind bcl.Binding
	var err error
	func() {
		defer func() {
			if r := recover(); r != nil {
				err = fmt.Errorf("PANIC %v", r)
			}
		}()
		opts := []bcl.Option{bcl.OptOutput(&out), bcl.OptLogger(&lg)}
		if obsOpts {
			opts = append(opts, bcl.OptDisasm(true), bcl.OptTrace(true), bcl.OptStats(true))
		}
		if viaFile {
			r := rand.New(rand.NewSource(seed))
			f := &scriptedFile{name: "c.bcl", steps: chopped(string(src), 24, r)}
			res, bind, err = bcl.InterpretFile(f, opts...)
		} else {
			res, bind, err = bcl.Interpret(src, opts...)
		}
	}()
	return fmt.Sprintf("err=%v out=%q log=%q res=%s bind=%s", err, out.String(), lg.String(), canonBlocks(res), canonBinding(bind))
}

func driveConc(args []string) int {
	op := parseOpts(args)
	n := op.int("n", 8)
	rounds := op.int("rounds", 20)
	seed := int64(op.int("seed", 1))
	s := newSummary("drive-conc")
	g := newProgen(seed)
	g.failRate = 4
	for round := 0; round < rounds; round++ {
		obsOpts = round%2 == 1
		// different inputs; the concurrent calls are made first (in the first round they are the very first calls of the process:
		// whatever the library sets up on first use is set up under concurrency), the sequential reference afterwards
		srcs := make([][]byte, n)
		want := make([]string, n)
		for i := range srcs {
			src := g.program(3 + g.r.Intn(8))
			if i%3 == 0 {
				src += "print )\nvar = 1\n" // some callers report diagnostics
			}
			if i%4 == 1 {
				// programs with hundreds of variables and constants: operands beyond the one-byte varint class
				src = scaleSource("vars-distinct", 250+10*i+round)
			}
			srcs[i] = []byte(src)
		}
		got := make([]string, n)
		var wg sync.WaitGroup
		for i := range srcs {
			wg.Add(1)
			go func(i int) {
				defer wg.Done()
				got[i] = interpOutcome(srcs[i], i%2 == 1, seed+int64(i))
			}(i)
		}
		wg.Wait()
		for i := range srcs {
			want[i] = interpOutcome(srcs[i], i%2 == 1, seed+int64(i))
		}
		s.Cases += n
		s.Judged += n
		s.Distinct += n
		s.Nontrivial += n
		for i := range srcs {
			if got[i] != want[i] {
				s.bad("a call running concurrently with others gave a different outcome than alone", "concurrent-callers", []byte(fmt.Sprintf("%q", srcs[i])), map[string]string{"alone": want[i], "concurrent": got[i]}, true)
			}
		}
		// concurrent Unmarshal into targets of the same and of different (same-named) types
		{
			type outc struct {
				a, b string
			}
			unm := func(i int) outc {
				txt := fmt.Sprintf("def conf \"n%d\" { listen = %d; port = %d }\nbind conf -> struct\n", i, 7000+i, 80+i)
				ta := reflect.New(confTagged())
				tb := reflect.New(confPlain())
				ea := bcl.Unmarshal([]byte(txt), ta.Interface(), bcl.OptLogger(io.Discard), bcl.OptOutput(io.Discard))
				eb := bcl.Unmarshal([]byte(txt), tb.Interface(), bcl.OptLogger(io.Discard), bcl.OptOutput(io.Discard))
				return outc{fmt.Sprintf("%+v %v", ta.Elem().Interface(), ea), fmt.Sprintf("%+v %v", tb.Elem().Interface(), eb)}
			}
			wantU := make([]outc, n)
			for i := 0; i < n; i++ {
				wantU[i] = unm(i)
			}
			gotU := make([]outc, n)
			for i := 0; i < n; i++ {
				wg.Add(1)
				go func(i int) {
					defer wg.Done()
					defer func() {
						if x := recover(); x != nil {
							gotU[i] = outc{fmt.Sprint("PANIC ", x), ""}
						}
					}()
					gotU[i] = unm(i)
				}(i)
			}
			wg.Wait()
			s.Cases += n
			s.Judged += n
			for i := range gotU {
				if gotU[i] != wantU[i] {
					s.bad("a concurrent Unmarshal gave a different target or error than the same call alone", "concurrent-unmarshal", []byte(fmt.Sprint(i)), map[string]any{"alone": wantU[i], "concurrent": gotU[i]}, true)
				}
			}
		}
		// the same Option values handed to all concurrent callers (options are values a caller may build once and reuse), every
		// caller with diagnostics, warnings and output; the writers behind them are safe for concurrent use
		{
			lo, ll := &lockedWriter{}, &lockedWriter{}
			shared := []bcl.Option{bcl.OptOutput(lo), bcl.OptLogger(ll)}
			srcOf := func(i int) []byte {
				return []byte(fmt.Sprintf("def a \"x%d\" { f = %d }\ndef b { g = %d }\nprint %d\nbind a -> struct\nbind b -> struct\nprint )\nvar = %d\n", i, i, i, i, i))
			}
			okOf := func(i int) []byte {
				return []byte(fmt.Sprintf("def a \"x%d\" { f = %d }\ndef b { g = %d }\nprint %d\nbind a -> struct\nbind b -> struct\n", i, i, i, i))
			}
			run1 := func(i int, opts []bcl.Option) string {
				var e1, e2 error
				var res []bcl.Block
				var bind bcl.Binding
				func() {
					defer func() {
						if x := recover(); x != nil {
							e1 = fmt.Errorf("PANIC %v", x)
						}
					}()
					_, _, e1 = bcl.Interpret(srcOf(i), opts...)
					res, bind, e2 = bcl.Interpret(okOf(i), opts...)
				}()
				return fmt.Sprintf("e1=%v e2=%v res=%s bind=%s", e1, e2, canonBlocks(res), canonBinding(bind))
			}
			wantS := make([]string, n)
			wantLog, wantOut := 0, 0
			for i := 0; i < n; i++ {
				var o, l bytes.Buffer
				wantS[i] = run1(i, []bcl.Option{bcl.OptOutput(&o), bcl.OptLogger(&l)})
				wantLog += l.Len()
				wantOut += o.Len()
			}
			gotS := make([]string, n)
			for i := 0; i < n; i++ {
				wg.Add(1)
				go func(i int) {
					defer wg.Done()
					gotS[i] = run1(i, shared)
				}(i)
			}
			wg.Wait()
			s.Cases += n
			s.Judged += n
			for i := range gotS {
				if gotS[i] != wantS[i] {
					s.bad("a call sharing its Option values with concurrent calls gave a different outcome than alone", "shared-options", []byte(fmt.Sprint(i)), map[string]string{"alone": wantS[i], "concurrent": gotS[i]}, true)
				}
			}
			lo.mu.Lock()
			ll.mu.Lock()
			if lo.b.Len() != wantOut || ll.b.Len() != wantLog {
				s.bad("output / log volume of calls sharing their Option values differs from the sum of the calls alone", "shared-options-volume", []byte(`"shared options"`), fmt.Sprintf("out %d (want %d) log %d (want %d)", lo.b.Len(), wantOut, ll.b.Len(), wantLog), true)
			}
			ll.mu.Unlock()
			lo.mu.Unlock()
			// one shared Prog whose execution logs a warning (repeated bind), its log writer safe for concurrent use
			lw := &lockedWriter{}
			if pw, err := bcl.Parse(okOf(round), "warn", bcl.OptOutput(io.Discard), bcl.OptLogger(lw)); err == nil {
				bcl.Execute(pw)
				lw.mu.Lock()
				one := lw.b.Len()
				lw.b.Reset()
				lw.mu.Unlock()
				for i := 0; i < n; i++ {
					wg.Add(1)
					go func() {
						defer wg.Done()
						defer func() { recover() }()
						bcl.Execute(pw)
					}()
				}
				wg.Wait()
				lw.mu.Lock()
				if lw.b.Len() != n*one || one == 0 {
					s.bad("warnings of concurrent executions of a shared Prog are not n times the warnings of one", "shared-prog-warnings", []byte(`"warn"`), fmt.Sprintf("%d bytes, expected %d x %d", lw.b.Len(), n, one), true)
				}
				lw.mu.Unlock()
			}
		}
		// one shared Prog, executed from n goroutines
		var src []byte
		var p *bcl.Prog
		w := &lockedWriter{}
		for tries := 0; p == nil && tries < 50; tries++ {
			src = []byte(g.program(4 + g.r.Intn(6)))
			pp, err := bcl.Parse(src, "shared", bcl.OptOutput(w), bcl.OptLogger(io.Discard))
			if err == nil {
				p = pp
			}
		}
		if p == nil {
			continue
		}
		res0, bind0, err0 := bcl.Execute(p)
		ref := fmt.Sprintf("err=%v res=%s bind=%s", err0, canonBlocks(res0), canonBinding(bind0))
		w.mu.Lock()
		once := w.b.String()
		w.b.Reset()
		w.mu.Unlock()
		outs := make([]string, n)
		for i := 0; i < n; i++ {
			wg.Add(1)
			go func(i int) {
				defer wg.Done()
				defer func() {
					if x := recover(); x != nil {
						outs[i] = fmt.Sprint("PANIC ", x) // a panic inside the library under concurrency is an outcome, not the end of the harness
					}
				}()
				r, b, e := bcl.Execute(p)
				outs[i] = fmt.Sprintf("err=%v res=%s bind=%s", e, canonBlocks(r), canonBinding(b))
			}(i)
		}
		wg.Wait()
		s.Cases += n
		s.Judged += n
		for i := range outs {
			if outs[i] != ref {
				s.bad("executing one shared Prog from several goroutines changed a result", "shared-prog", []byte(fmt.Sprintf("%q", src)), map[string]string{"alone": ref, "concurrent": outs[i]}, true)
			}
		}
		w.mu.Lock()
		total := w.b.Len()
		w.mu.Unlock()
		if total != n*len(once) {
			s.bad("output of concurrent executions of a shared Prog is not n times the output of one", "shared-prog-output", []byte(fmt.Sprintf("%q", src)), fmt.Sprintf("%d bytes, expected %d", total, n*len(once)), true)
		}
		// the same with the trace and the statistics on: every execution lists its own instructions (positions included)
		w.mu.Lock()
		w.b.Reset()
		w.mu.Unlock()
		bcl.Execute(p, bcl.OptTrace(true), bcl.OptStats(true))
		w.mu.Lock()
		onceT := w.b.Len()
		w.b.Reset()
		w.mu.Unlock()
		for i := 0; i < n; i++ {
			wg.Add(1)
			go func(i int) {
				defer wg.Done()
				defer func() {
					if x := recover(); x != nil {
						outs[i] = fmt.Sprint("PANIC ", x) // a panic inside the library under concurrency is an outcome, not the end of the harness
					}
				}()
				r, b, e := bcl.Execute(p, bcl.OptTrace(true), bcl.OptStats(true))
				outs[i] = fmt.Sprintf("err=%v res=%s bind=%s", e, canonBlocks(r), canonBinding(b))
			}(i)
		}
		wg.Wait()
		s.Cases += n
		s.Judged += n
		for i := range outs {
			if outs[i] != ref {
				s.bad("executing one shared Prog from several goroutines with the trace on changed a result", "shared-prog", []byte(fmt.Sprintf("%q", src)), map[string]string{"alone": ref, "concurrent": outs[i]}, true)
			}
		}
		w.mu.Lock()
		total = w.b.Len()
		w.mu.Unlock()
		if total != n*onceT {
			s.bad("trace output of concurrent executions of a shared Prog is not n times the trace of one", "shared-prog-trace", []byte(fmt.Sprintf("%q", src)), fmt.Sprintf("%d bytes, expected %d", total, n*onceT), true)
		}
		if len(s.Samples) < 2 {
			s.Samples = append(s.Samples, []byte(fmt.Sprintf("%q", string(src))))
		}
	}
	return s.write(op)
}

func init() { register("drive-conc", driveConc) }
