package main

import (
	"bufio"
	"bytes"
	"encoding/json"
	"fmt"
	"io"
	"os"
	"strings"
	"sync/atomic"
	"time"

	"github.com/wkhere/bcl"
)

// replay-sched (C11, C12): behaviours of BclPipeline *with their interleaving* (Gen_Sched) stepped through the real ParseFile.
// The hook sink blocks: every goroutine of the call stops at its hook points and goes on only when the schedule says so, so the
// real goroutines take their steps in the order TLC chose. The outcome of a schedule is exact (return class, number of reads,
// reads after a lexical failure, Close count), not a set over all schedules.
//
// Where the real goroutine stops (after the change the hook reports, except "tok" and "need" which come before the channel
// operation):   reader R: read, sent, sawdone, rerr, closeinpc, close     lexer L: need, tok, closed     parser P: tok, parsed,
// done, perr.   A statement of the scripted payload is one token of the model and two tokens of the real lexer.
//
// If the real code cannot be held to the schedule (a hook point of another kind arrives, or none within the patience), the
// steering is given up for that case ("lost"): all gates open and the call is judged by the contract alone. A lost case is not
// a violation; cases that are all lost are a dead driver.

type schedStep struct {
	A string `json:"a"`
	V string `json:"v"`
	N string `json:"n"`
}
type schedCase struct {
	Fam    string      `json:"fam"`
	Script []pipeItem  `json:"script"`
	Sched  []schedStep `json:"sched"`
	Ret    string      `json:"ret"`
	Closes int         `json:"closes"`
	Reads  int         `json:"reads"`
	RAfter int         `json:"rafter"`
}

type gateEv struct {
	kind string
	a, b int
}

var parking = map[string]map[string]bool{
	"R": {"read": true, "sent": true, "sawdone": true, "rerr": true, "closeinpc": true, "close": true},
	"L": {"need": true, "tok": true, "closed": true},
	"P": {"tok": true, "parsed": true, "done": true, "perr": true},
}

type steerer struct {
	arrived    map[string]chan gateEv
	resume     map[string]chan struct{}
	free       chan struct{}
	freed      bool
	parked     map[string]*gateEv
	lost       string
	patience   time.Duration
	rec        *pipeRecorder
	passed     int32 // hook points passed under control
	inpcClosed bool
	lexFailed  int32 // the FAIL token has been emitted (as in the model: reads are counted from here)
}

var schedPatience = 2 * time.Second

func newSteerer(rec *pipeRecorder) *steerer {
	st := &steerer{arrived: map[string]chan gateEv{}, resume: map[string]chan struct{}{}, free: make(chan struct{}), parked: map[string]*gateEv{},
		patience: schedPatience, rec: rec}
	for _, g := range []string{"R", "L", "P"} {
		st.arrived[g] = make(chan gateEv)
		st.resume[g] = make(chan struct{})
	}
	return st
}

func (st *steerer) sink(e bcl.VerifEvent) {
	if e.Kind == "step" {
		return
	}
	if e.Kind != "need" {
		st.rec.sink(e) // the per-goroutine logs Trace_Pipe reads know nothing of the gate
	}
	if !parking[e.G][e.Kind] {
		return
	}
	select {
	case st.arrived[e.G] <- gateEv{e.Kind, e.A, e.B}:
	case <-st.free:
		return
	}
	select {
	case <-st.resume[e.G]:
	case <-st.free:
	}
}

func (st *steerer) lose(format string, a ...any) bool {
	if st.lost == "" {
		st.lost = fmt.Sprintf(format, a...)
	}
	return false
}

// ensure waits until goroutine g stands at a hook point and checks which
func (st *steerer) ensure(g string, kinds ...string) bool {
	if st.lost != "" {
		return false
	}
	if st.parked[g] == nil {
		select {
		case ev := <-st.arrived[g]:
			st.parked[g] = &ev
			atomic.AddInt32(&st.passed, 1)
		case <-time.After(st.patience):
			return st.lose("%s did not reach %v", g, kinds)
		}
	}
	for _, k := range kinds {
		if st.parked[g].kind == k {
			return true
		}
	}
	return st.lose("%s stands at %q, the schedule needs %v", g, st.parked[g].kind, kinds)
}

func (st *steerer) release(g string) bool {
	if st.lost != "" {
		return false
	}
	if st.parked[g] == nil {
		return true
	}
	select {
	case st.resume[g] <- struct{}{}:
		st.parked[g] = nil
		return true
	case <-time.After(st.patience):
		return st.lose("%s could not be released", g)
	}
}

func (st *steerer) step(g string, kinds ...string) bool {
	return st.release(g) && st.ensure(g, kinds...)
}

// lstep lets the lexer go on to its next hook point; once its input is closed a receive does not wait, and the lexer may
// ask for input more than once before it emits EOF: those hook points are passed through
func (st *steerer) lstep(kinds ...string) bool {
	for i := 0; i < 8; i++ {
		if !(st.release("L") && st.ensure("L", "need", "tok", "closed")) {
			return false
		}
		if !(st.parked["L"].kind == "need" && st.inpcClosed && kinds[0] != "need") {
			break
		}
	}
	return st.ensure("L", kinds...)
}

// realToks: how many tokens of the real lexer one token of the model stands for under the payload rendering in use
func (st *steerer) realToks(v string) int {
	if atomic.LoadInt32(&nlFirst) == 1 {
		switch v {
		case "tok":
			return 4 // print ( 1 )
		case "bad":
			return 3 // print ) (
		}
	}
	return 2 // eval 1 | eval ) | print ) | ERR FAIL
}

func (st *steerer) open() {
	if !st.freed {
		st.freed = true
		close(st.free)
	}
}

func hookOf(n string) string {
	switch n {
	case "tok", "fail":
		return "tok"
	}
	return n // need, closed
}

func (st *steerer) do(s schedStep) bool {
	switch s.A {
	case "RRead":
		return st.step("R", "read")
	case "RSendRerr":
		return st.step("R", "rerr")
	case "RSeeDone":
		return st.step("R", "sawdone")
	case "RCloseInpc":
		st.inpcClosed = true
		return st.step("R", "closeinpc")
	case "RClose":
		return st.step("R", "close")
	case "Chunk": // rendezvous: both partners are let go, both must arrive at their next hook point
		if !(st.ensure("R", "read") && st.ensure("L", "need") && st.release("R") && st.release("L")) {
			return false
		}
		return st.ensure("R", "sent") && st.ensure("L", hookOf(s.N))
	case "LEmit":
		switch s.V {
		case "idle": // the model's step from "nothing left in this chunk" to "needs input": the real lexer is there already
			return st.ensure("L", "need")
		case "tok", "bad":
			for i := st.realToks(s.V); i > 1; i-- {
				if !st.lstep("tok") {
					return false
				}
			}
			return st.lstep(hookOf(s.N))
		case "fail": // the real lexer reports the character (an ERR token) and then fails (a FAIL token)
			if !(st.lstep("tok") && st.lstep("closed")) {
				return false
			}
			atomic.StoreInt32(&st.lexFailed, 1)
			return true
		}
	case "LSeeClosed":
		return st.lstep("tok") && (st.parked["L"].a == 1 || st.lose("the lexer did not answer the closed input with EOF"))
	case "LEof":
		return st.lstep("closed")
	case "LCloseTok": // done by the real lexer in the same step as the last emission
		return st.ensure("L", "closed")
	case "PRecv": // the hook point is after the receive: the parser is let go on and seen again at its next receive
		n := 1
		if s.V != "eof" {
			n = st.realToks(s.V)
		}
		for i := 0; i < n; i++ {
			if !(st.ensure("P", "tok") && st.release("P")) {
				return false
			}
		}
		return true
	case "PDrain":
		return st.ensure("P", "parsed")
	case "PCloseDone":
		return st.step("P", "done")
	case "PSendPerr":
		return st.step("P", "perr")
	}
	return st.lose("unknown action %s/%s", s.A, s.V)
}

type gatedFile struct {
	scriptedFile
	st *steerer
}

func (f *gatedFile) Close() error {
	f.scriptedFile.Close()
	f.st.sink(bcl.VerifEvent{G: "R", Kind: "close"})
	return nil
}

type schedObs struct {
	pipeObs
	Lost         string `json:"lost,omitempty"`
	Log          string `json:"diagnostics,omitempty"`
	ErrDelivered bool   `json:"read_error_delivered"`
	Passed       int    `json:"hook_points_steered"`
}

func runSched(c *schedCase, api string, wd time.Duration) (o schedObs, logs map[string][]pev) {
	o.API = api
	steps := make([]readStep, len(c.Script))
	for i, it := range c.Script {
		steps[i] = it.step()
	}
	rec := &pipeRecorder{logs: map[string][]pev{"R": {}, "L": {}, "P": {}, "C": {}}, roles: map[int]string{}}
	st := newSteerer(rec)
	var readsAfter int32
	f := &gatedFile{scriptedFile: scriptedFile{name: "sched.bcl", steps: steps}, st: st}
	f.onRead = func(i int) {
		if atomic.LoadInt32(&st.lexFailed) == 1 {
			atomic.AddInt32(&readsAfter, 1)
		}
	}
	var lg bytes.Buffer
	before := bclGoroutineIDs()
	setSink(st.sink)
	type res struct {
		err error
		pan string
	}
	done := make(chan res, 1)
	go func() {
		var r res
		defer func() {
			if x := recover(); x != nil {
				r.pan = fmt.Sprint(x)
			}
			done <- r
		}()
		opts := []bcl.Option{bcl.OptLogger(&lg), bcl.OptOutput(io.Discard)}
		switch api {
		case "ParseFile":
			_, r.err = bcl.ParseFile(f, opts...)
		case "InterpretFile":
			_, _, r.err = bcl.InterpretFile(f, opts...)
		case "UnmarshalFile":
			var t struct{}
			r.err = bcl.UnmarshalFile(f, &t, opts...)
			if r.err != nil && r.err.Error() == "no binding" {
				r.err = nil
			}
		}
	}()
	for _, s := range c.Sched {
		if !st.do(s) {
			break
		}
	}
	o.Lost = st.lost
	if (st.lost != "" && os.Getenv("SCHED_DEBUG") != "") || os.Getenv("SCHED_DEBUG") == "2" {
		rec.mu.Lock()
		fmt.Fprintf(os.Stderr, "LOST %s\n script=%+v\n L=%+v\n P=%+v\n R=%+v\n", st.lost, c.Script, rec.logs["L"], rec.logs["P"], rec.logs["R"])
		rec.mu.Unlock()
	}
	st.open()
	select {
	case r := <-done:
		o.Panic = r.pan
		o.Ret = classifyRet(r.err)
		if r.err != nil {
			o.Err = r.err.Error()
		}
	case <-time.After(wd):
		o.Hang = true
		o.Leaked = bclGoroutinesSince(before)
		return o, nil
	}
	deadline := time.Now().Add(1000 * time.Millisecond)
	for time.Now().Before(deadline) {
		if atomic.LoadInt32(&f.closes) >= 1 && bclGoroutinesSince(before) == "" {
			break
		}
		time.Sleep(100 * time.Microsecond)
	}
	setSink(nil)
	o.Closes = int(atomic.LoadInt32(&f.closes))
	o.Reads = int(atomic.LoadInt32(&f.reads))
	o.RAfter = int(atomic.LoadInt32(&readsAfter))
	o.Leaked = bclGoroutinesSince(before)
	o.Passed = int(atomic.LoadInt32(&st.passed))
	o.Log = lg.String() // the call has returned and its goroutines are gone
	for k := 0; k < f.i && k < len(f.steps); k++ {
		if e := f.steps[k].err; e != nil && e != io.EOF {
			o.ErrDelivered = true
		}
	}
	rec.mu.Lock()
	logs = rec.logs
	rec.mu.Unlock()
	return o, logs
}

func judgeSched(c *schedCase, o schedObs) (why, shape string) {
	switch {
	case o.Hang:
		return o.API + " did not return within the watchdog", "hang"
	case o.Panic != "":
		return o.API + " panicked: " + o.Panic, "panic"
	case o.Closes != 1:
		return fmt.Sprintf("%s: Close called %d times", o.API, o.Closes), fmt.Sprintf("close-count-%d", o.Closes)
	case o.Leaked != "":
		return o.API + ": a goroutine started by the call is still alive after quiescence", "goroutine-leak"
	}
	if o.ErrDelivered && o.Ret != "readerr" {
		return fmt.Sprintf("%s returned %s (%s) although a Read of the input had failed", o.API, o.Ret, o.Err), "read-error-not-preferred"
	}
	if o.RAfter > 3 {
		return fmt.Sprintf("%s kept reading after a lexical failure: %d more reads", o.API, o.RAfter), "reads-after-failure"
	}
	if o.Lost != "" {
		return "", "" // not held to the schedule: the contract alone
	}
	// the same reads in the same order of steps: the model's return class is the only one possible
	if o.Reads == c.Reads && o.Ret != c.Ret {
		return fmt.Sprintf("%s returned %s (%s) under a schedule for which the model gives %s", o.API, o.Ret, o.Err, c.Ret), "return-class:" + o.Ret
	}
	return "", ""
}

// finer than the property: the exact number of reads of a schedule
func schedDrift(c *schedCase, o schedObs) string {
	switch {
	case o.Lost != "" || o.Hang:
		return ""
	case o.Reads != c.Reads:
		return fmt.Sprintf("reads: %d, the model has %d for this schedule", o.Reads, c.Reads)
	case o.RAfter != c.RAfter:
		return fmt.Sprintf("reads after the lexical failure: %d, the model has %d for this schedule", o.RAfter, c.RAfter)
	}
	return ""
}

func replaySched(args []string) int {
	op := parseOpts(args)
	tvOut := op.str("tvout", "")
	tvMax := op.int("tvmax", 200)
	s := newSummary("sched")
	var enc *json.Encoder
	if tvOut != "" {
		f, err := os.Create(tvOut)
		if err != nil {
			fmt.Fprintln(os.Stderr, err)
			return 2
		}
		defer f.Close()
		w := bufio.NewWriterSize(f, 1<<20)
		defer w.Flush()
		enc = json.NewEncoder(w)
	}
	sameLog := op.str("samelog", "") != "" // C16: the diagnostics of an input must not depend on the schedule
	atomic.StoreInt32(&nlFirst, int32(op.int("nlfirst", 0)))
	defer atomic.StoreInt32(&nlFirst, 0)
	diagOf := map[string]string{}
	lost, steered, points, written, events, hangs := 0, 0, 0, 0, 0, 0
	acts := map[string]int{}
	i := 0
	eachCase(openIn(op), func(raw []byte) {
		var c schedCase
		if err := json.Unmarshal(raw, &c); err != nil || c.Fam != "sched" {
			s.Skipped++
			return
		}
		key := append([]byte{}, raw...)
		if !s.note(key, len(c.Script) >= 2 && len(c.Sched) >= 12, raw) {
			return
		}
		if hangs > 8 || s.MismatchCount >= 12 { // enough to report; every failing case costs a watchdog or a quiescence wait
			s.Skipped++
			return
		}
		api := []string{"ParseFile", "ParseFile", "InterpretFile", "UnmarshalFile"}[i%4]
		if sameLog {
			api = "ParseFile"
		}
		i++
		if lost > 20 {
			schedPatience = 300 * time.Millisecond
		}
		o, logs := runSched(&c, api, 5*time.Second)
		s.Judged++
		s.Classes[o.Ret]++
		for _, a := range c.Sched {
			acts[a.A]++
		}
		if o.Lost != "" {
			lost++
			s.drift("steering-lost", o.Lost)
		} else {
			steered++
			points += o.Passed
		}
		if d := schedDrift(&c, o); d != "" {
			s.drift("reads-differ-from-model", d)
		}
		if why, shape := judgeSched(&c, o); why != "" {
			if o.Hang {
				hangs++
			}
			o2, _ := runSched(&c, api, 5*time.Second)
			why2, _ := judgeSched(&c, o2)
			s.bad(why, shape, raw, o, why2 != "")
			return
		}
		if sameLog && o.Lost == "" && !o.Hang && api == "ParseFile" {
			// the reference is the one execution that has no schedule: Parse on the bytes the reader delivers (up to a read error)
			key, _ := json.Marshal(c.Script)
			ref, ok := diagOf[string(key)]
			if !ok {
				var whole []byte
				for _, it := range c.Script {
					st := it.step()
					if st.err != nil && st.err != io.EOF {
						break
					}
					whole = append(whole, st.data...)
				}
				var lg bytes.Buffer
				func() {
					defer func() { recover() }()
					bcl.Parse(whole, "sched.bcl", bcl.OptLogger(&lg), bcl.OptOutput(io.Discard))
				}()
				ref = lg.String()
				diagOf[string(key)] = ref
			}
			if os.Getenv("SCHED_DEBUG") != "" {
				fmt.Fprintf(os.Stderr, "REF %q\nGOT %q\n", ref, o.Log)
			}
			if ref != o.Log {
				s.bad("the diagnostics of ParseFile under this schedule of its goroutines differ from those of the same input parsed in one piece", "schedule-dependent-diagnostics", raw,
					map[string]string{"one_piece": ref, "this_schedule": o.Log}, true)
			}
		}
		if enc != nil && written < tvMax && o.Lost == "" && api == "ParseFile" && logs != nil {
			ret := map[string]int{"nil": 0, "parseerr": 1, "readerr": 3}[o.Ret]
			ne := 0
			for _, l := range logs {
				ne += len(l)
			}
			var sb strings.Builder
			for _, a := range c.Sched {
				sb.WriteString(a.A[:2])
			}
			enc.Encode(map[string]any{"id": written, "desc": "steered " + sb.String(), "logs": logs, "closes": o.Closes, "ret": ret})
			written++
			events += ne
		}
	})
	s.Extra["steered"] = steered
	s.Extra["steering_lost"] = lost
	s.Extra["hook_points_steered"] = points
	s.Extra["actions_replayed"] = acts
	s.Extra["tv_traces"] = written
	s.Extra["events"] = events
	if s.MismatchCount == 0 && s.Judged > 0 && lost*2 > s.Judged {
		fmt.Fprintln(os.Stderr, "vh: steering lost on more than half of the schedules: dead driver")
		s.write(op)
		return 2
	}
	return s.write(op)
}

func init() { register("replay-sched", replaySched) }
