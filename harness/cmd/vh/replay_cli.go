package main

import (
	"bytes"
	"crypto/sha256"
	"encoding/json"
	"fmt"
	"os"
	"os/exec"
	"path/filepath"
	"strings"
	"time"

	"github.com/wkhere/bcl"
)

// ---- the "cli" family (C18): argument vectors with the configuration and outcome class BclCLI derives; the built cmd/bcl is run
// and compared with (a) the exit status and stream discipline the specification states and (b) what the *library* prints for the
// same input with the options the configuration selects (the mirror is an equality of two real runs).

type cliCase struct {
	Fam         string   `json:"fam"`
	Argv        []string `json:"argv"`
	Class       string   `json:"class"`
	RClass      string   `json:"rclass"`
	Exit        int      `json:"exit"`
	File        string   `json:"file"`
	D           bool     `json:"d"`
	T           bool     `json:"t"`
	R           bool     `json:"r"`
	S           bool     `json:"s"`
	Bdump       bool     `json:"bdump"`
	Bload       bool     `json:"bload"`
	BdumpFile   string   `json:"bdumpFile"`
	DumpWritten bool     `json:"dumpWritten"`
	NT          bool     `json:"nt"`
}

var cliFixtures = map[string]string{
	"calc.bcl": "var x = 2\ndef srv \"a\" { port = 80 + x }\nprint \"ok\", \n",
	"e.bcl":    "print 1\nprint )\nvar = 3\n",
	"lib.bcl":  "print \"" + strings.Repeat("s", 95) + "\"\nprint \"before\"\ndef a { f = 1 }\nprint 1 + nil\nprint \"after\"\n",
}

func init() {
	cliFixtures["calc.bcl"] = "var x = 2\ndef srv \"a\" { port = 80 + x }\nprint \"ok\"\nprint x * 3\nbind srv -> struct\n"
	// padded with a comment so that the file is 241 bytes long and its last line feed sits at offset 240: the last byte of its dump
	// is then the one-byte varint 240, the largest of its class
	if n := 241 - len(cliFixtures["calc.bcl"]); n > 2 {
		cliFixtures["calc.bcl"] = "#" + strings.Repeat(".", n-2) + "\n" + cliFixtures["calc.bcl"]
	}
	cliFixtures["g.txt"] = cliFixtures["calc.bcl"]
	cliFixtures["-"] = cliFixtures["calc.bcl"]
}

type cliObs struct {
	Exit   int    `json:"exit"`
	Stdout string `json:"stdout"`
	Stderr string `json:"stderr"`
}

func runCLI(bin, dir string, argv []string, stdin []byte) cliObs {
	cmd := exec.Command(bin, argv...)
	cmd.Dir = dir
	var so, se bytes.Buffer
	cmd.Stdout, cmd.Stderr = &so, &se
	var err error
	readsStdin := true // no FILE argument, or '-'
	for _, a := range argv {
		if !strings.HasPrefix(a, "-") {
			readsStdin = false
		}
	}
	h := sha256.Sum256([]byte(strings.Join(argv, "\x00")))
	if len(stdin) > 8 && readsStdin && h[0]%4 == 0 { // a function of the case, so that a confirming run is delivered the same way
		// every third run: standard input is a pipe whose writer delivers the text in three pieces with pauses, as a person
		// typing or an upstream process does; the tool must read to the end of input all the same
		w, perr := cmd.StdinPipe()
		if perr != nil {
			return cliObs{-1, "", perr.Error()}
		}
		if err = cmd.Start(); err == nil {
			a, b := len(stdin)/3, 2*len(stdin)/3
			for _, piece := range [][]byte{stdin[:a], stdin[a:b], stdin[b:]} {
				w.Write(piece)
				time.Sleep(25 * time.Millisecond)
			}
			w.Close()
			err = cmd.Wait()
		}
	} else {
		cmd.Stdin = bytes.NewReader(stdin)
		err = cmd.Run()
	}
	code := 0
	if ee, ok := err.(*exec.ExitError); ok {
		code = ee.ExitCode()
	} else if err != nil {
		code = -1
	}
	return cliObs{code, so.String(), se.String()}
}

// libraryOutput: what the library writes to its output writer for this input with the selected options
func libraryOutput(c *cliCase, dir string, dump []byte) (out string, failed bool) {
	var w bytes.Buffer
	var lg bytes.Buffer
	var p *bcl.Prog
	var err error
	name := c.File
	if name == "-" {
		name = "/dev/stdin" // the tool hands os.Stdin to the library, whose Name() is this
	}
	if c.Bload {
		p, err = bcl.LoadProg(bytes.NewReader(dump), name, bcl.OptDisasm(c.D), bcl.OptOutput(&w), bcl.OptLogger(&lg))
	} else {
		src := []byte(cliFixtures[c.File])
		p, err = bcl.ParseFile(&scriptedFile{name: name, steps: []readStep{{data: src}}}, bcl.OptDisasm(c.D), bcl.OptStats(c.S), bcl.OptOutput(&w), bcl.OptLogger(&lg))
	}
	if err != nil {
		return w.String(), true
	}
	_, _, err = bcl.Execute(p, bcl.OptTrace(c.T), bcl.OptStats(c.S), bcl.OptOutput(&w))
	return w.String(), err != nil
}

func replayCLI(args []string) int {
	op := parseOpts(args)
	bin := op.str("bin", "")
	s := newSummary("cli")
	dir, err := os.MkdirTemp("", "vhcli")
	if err != nil {
		return 2
	}
	defer os.RemoveAll(dir)
	for _, f := range []string{"calc.bcl", "g.txt", "e.bcl", "lib.bcl"} {
		os.WriteFile(filepath.Join(dir, f), []byte(cliFixtures[f]), 0o644)
	}
	p, _ := bcl.Parse([]byte(cliFixtures["calc.bcl"]), "calc.bcl")
	var b bytes.Buffer
	p.Dump(&b)
	dump := append([]byte{}, b.Bytes()...)
	stdin := []byte(cliFixtures["-"])
	// a stale, longer dump that is lying at the --bdump path from an earlier run
	bigp, _ := bcl.Parse([]byte(cliFixtures["calc.bcl"]+strings.Repeat("print \"padding\" + 12345\n", 40)), "stale.bcl", bcl.OptOutput(&bytes.Buffer{}))
	var sb bytes.Buffer
	bigp.Dump(&sb)
	stale := append([]byte{}, sb.Bytes()...)
	judge := func(c *cliCase) (why, shape string, o cliObs) {
		os.WriteFile(filepath.Join(dir, "i.bcb"), dump, 0o644)
		for _, f := range []string{"o.bcb", "calc.bcb", "e.bcb", "lib.bcb", "nope.bcb"} {
			os.Remove(filepath.Join(dir, f))
		}
		if c.Bdump && c.BdumpFile != "" && c.BdumpFile != "i.bcb" && len(c.Argv)%2 == 0 {
			os.WriteFile(filepath.Join(dir, c.BdumpFile), stale, 0o644) // every other case: the dump file already exists
		}
		in := stdin
		if c.Bload && c.File == "-" {
			in = dump
		}
		o = runCLI(bin, dir, c.Argv, in)
		if o.Exit != c.Exit {
			return fmt.Sprintf("exit status %d, specification %d (%s)", o.Exit, c.Exit, c.RClass), "exit-status", o
		}
		switch c.RClass {
		case "usage":
			if o.Stderr == "" || o.Stdout != "" {
				return "a usage error must be reported on standard error only", "usage-streams", o
			}
			return "", "", o
		case "help":
			return "", "", o
		}
		if c.Exit == 1 && o.Stderr == "" {
			return "exit status 1 without a diagnostic on standard error", "silent-failure", o
		}
		if c.Exit == 0 && o.Stderr != "" {
			return "success with text on standard error: " + o.Stderr, "stderr-on-success", o
		}
		now, statErr := os.ReadFile(filepath.Join(dir, c.BdumpFile))
		written := statErr == nil && !bytes.Equal(now, stale)
		if c.Bdump && c.BdumpFile != "i.bcb" && c.DumpWritten != written {
			return fmt.Sprintf("dump file %s: written=%v, specification %v", c.BdumpFile, written, c.DumpWritten), "dump-file", o
		}
		// the mirror: library output for the same input and options
		if c.RClass == "ok" || c.RClass == "runtime-error" || c.RClass == "parse-error" {
			if c.RClass == "parse-error" && c.File == "i.bcb" {
				return "", "", o
			}
			lib, _ := libraryOutput(c, dir, dump)
			got := o.Stdout
			if c.R {
				if i := strings.Index(got, "result:  "); i >= 0 {
					got = got[:i]
				} else if c.RClass == "ok" {
					return "-r did not print the result", "result-flag", o
				}
			}
			if got != lib {
				return "standard output differs from what the library prints for this input and options", "mirror", cliObs{o.Exit, "cli:\n" + o.Stdout + "\nlibrary:\n" + lib, o.Stderr}
			}
		}
		// --bdump then --bload reproduces output and status (plain run, no listing options)
		if c.DumpWritten && !c.D && !c.S && !c.Bload {
			var rest []string
			if c.T {
				rest = append(rest, "-t")
			}
			o1 := runCLI(bin, dir, append([]string{c.File}, rest...), stdin)
			if c.File == "-" {
				o1 = runCLI(bin, dir, rest, stdin)
			}
			o2 := runCLI(bin, dir, append([]string{"--bload=" + c.BdumpFile}, rest...), nil)
			strip := func(s string) string { return strings.ReplaceAll(s, c.BdumpFile, c.File) }
			if o1.Exit != o2.Exit || o1.Stdout != o2.Stdout || strip(o2.Stderr) != o1.Stderr {
				return "--bload of the file written by --bdump does not reproduce output and status", "bdump-bload", cliObs{o2.Exit, "parsed:\n" + o1.Stdout + o1.Stderr + "\nloaded:\n" + o2.Stdout + o2.Stderr, ""}
			}
		}
		return "", "", o
	}
	eachCase(openIn(op), func(raw []byte) {
		var c cliCase
		if err := json.Unmarshal(raw, &c); err != nil {
			s.Skipped++
			return
		}
		if !s.note([]byte(strings.Join(c.Argv, "\x00")), c.NT, raw) {
			return
		}
		s.Judged++
		s.Classes[c.RClass]++
		if why, shape, o := judge(&c); why != "" {
			why2, shape2, _ := judge(&c)
			s.bad(why, shape, raw, o, why2 != "" && shape2 == shape)
		}
	})
	return s.write(op)
}

func init() { register("replay-cli", replayCLI) }
