package main

import (
	"bytes"
	"encoding/json"
	"fmt"
	"os"
	"path/filepath"
	"sort"
	"strings"

	"github.com/wkhere/bcl"
)

// The C14 corpus: version 1.1 files with their recorded meaning. corpus-make writes it (once); corpus-check loads and executes
// every file with the build under test and compares with the record.

type corpusRec struct {
	Name    string `json:"name"`
	Origin  string `json:"origin"` // "compiler" (dump of Source by the build that made the corpus) or "assembled" (EncodeProg of the specification)
	Source  string `json:"source,omitempty"`
	Out     string `json:"out"`
	ErrCls  string `json:"err_class"`
	Err     string `json:"err"`
	Blocks  string `json:"blocks"`
	Binding string `json:"binding"`
	Warn    int    `json:"warnings"`
	Disasm  string `json:"disasm"`
}

var corpusSources = map[string]string{
	"arith":      "print 1 + 2 * 3 - 8 / 2\nprint 7 / 2\nprint -7 / 2\nprint 1.5 * 2\nprint 10 / 4.0\nprint -0x1f + 017\n",
	"compare":    "print 1 < 2\nprint 2 <= 2\nprint 3 > 4\nprint 4 >= 5\nprint 1 == 1.0\nprint 1 != 2\nprint \"a\" < \"b\"\nprint \"a\" == \"a\"\nprint nil == false\n",
	"strings":    "print \"a\" + \"b\"\nprint \"n=\" + 5\nprint \"f=\" + 2.5\nprint \"x\" + nil\nprint \"ab\" * 3\nprint \"\" * 5 == \"\"\nprint \"q\\\"\\\\\\n\\x41\\u00e9\"\n",
	"logic":      "print 1 and 2\nprint 0 and 2\nprint 0 or \"x\"\nprint \"\" or nil or 7\nprint not 0\nprint not \"a\"\nprint true and false or true\nprint 1 and (0 or 3)\n",
	"unary":      "print -5\nprint +5\nprint -2.5\nprint - - 3\nprint -(1 + 2)\n",
	"vars":       "var x = 1\nvar y\nprint y\nvar z = x + 1\nprint z\neval x = 10\nprint x + z\nprint (y = 3) + y\n",
	"shadow":     "var x = 1\ndef a {\n var x = x + 1\n print x\n def b { var x = x * 10; print x }\n print x\n}\nprint x\n",
	"fields":     "def srv \"web\" {\n port = 80\n host = \"h\" + port\n secure = port == 443\n ratio = 0.5\n none = nil\n print TYPE + \".\" + NAME\n def tls \"cert\" { path = \"/x\"; up = port }\n def tls { off = true }\n}\n",
	"bind1":      "def a \"x\" { f = 1 }\nbind a -> struct\n",
	"bindfirst":  "def a \"x\" { f = 1 }\ndef a \"y\" { f = 2 }\ndef b { g = 3 }\nbind a:first -> struct\n",
	"bindlast":   "def a \"x\" { f = 1 }\ndef a \"y\" { f = 2 }\nbind a:last -> slice\n",
	"bindall":    "def a \"x\" { f = 1 }\ndef b {}\ndef a \"y\" { f = 2 }\nbind a:all -> slice\n",
	"rebind":     "def a { }\nbind a:1 -> slice\nbind a -> struct\n",
	"err-types":  "print 1\nprint 1 + nil\nprint 2\n",
	"err-div":    "def a { f = 1 }\nprint 7 / 0\n",
	"err-unres":  "def a {\n print zz\n}\n",
	"err-dup":    "def a { def c { } def c { } }\n",
	"err-bind":   "def a {}\ndef a {}\nbind a -> struct\n",
	"err-nobind": "bind q:all -> slice\n",
	"manyconst":  "", // filled below: > 240 constants and > 240 code bytes: 2-byte sizes and constant indices
	"longlines":  "", // filled below: offsets beyond 2288: 3-byte positions
}

func init() {
	var sb strings.Builder
	for i := 0; i < 260; i++ {
		fmt.Fprintf(&sb, "print %d + \"s%d\"\n", 1000+i, i)
	}
	corpusSources["manyconst"] = "" // "int + string" fails at once: use string + int
	sb.Reset()
	for i := 0; i < 260; i++ {
		fmt.Fprintf(&sb, "eval \"s%d\" + %d\n", i, 1000+i)
	}
	sb.WriteString("print \"s259\" + 1259\n")
	corpusSources["manyconst"] = sb.String()
	corpusSources["longlines"] = "# " + strings.Repeat("x", 2400) + "\nprint 1\n\n\nprint 2 + nil\n"
}

func execRecord(p *bcl.Prog, out, lg *bytes.Buffer, rec *corpusRec) {
	rec.Disasm = out.String()
	out.Reset()
	res, bind, err := bcl.Execute(p)
	rec.Out = out.String()
	rec.ErrCls = vmErrClass(err)
	if err != nil {
		rec.Err = err.Error()
	}
	rec.Blocks, rec.Binding = canonBlocks(res), canonBinding(bind)
	rec.Warn = strings.Count(lg.String(), "WARNING: ")
}

func corpusMake(args []string) int {
	op := parseOpts(args)
	dir := op.str("dir", "corpus")
	os.MkdirAll(dir, 0o755)
	var names []string
	for k := range corpusSources {
		names = append(names, k)
	}
	sort.Strings(names)
	n := 0
	write := func(rec corpusRec, file []byte) {
		os.WriteFile(filepath.Join(dir, rec.Name+".bcb"), file, 0o644)
		js, _ := json.MarshalIndent(rec, "", " ")
		os.WriteFile(filepath.Join(dir, rec.Name+".json"), append(js, '\n'), 0o644)
		n++
	}
	for _, name := range names {
		var out, lg bytes.Buffer
		p, err := bcl.Parse([]byte(corpusSources[name]), name, bcl.OptOutput(&out), bcl.OptLogger(&lg), bcl.OptDisasm(true))
		if err != nil {
			fmt.Fprintln(os.Stderr, "corpus source rejected:", name, lg.String())
			return 2
		}
		var d bytes.Buffer
		p.Dump(&d)
		rec := corpusRec{Name: "c-" + name, Origin: "compiler", Source: corpusSources[name]}
		execRecord(p, &out, &lg, &rec)
		write(rec, d.Bytes())
	}
	// files assembled by the specification: selected Gen_ISA cases given on the input
	k := 0
	seenOps := map[string]int{}
	eachCase(openIn(op), func(raw []byte) {
		var c isaCase
		if json.Unmarshal(raw, &c) != nil || c.Expect.OOD || len(c.Code) < 3 {
			return
		}
		// keep a case if it shows an opcode or outcome class not yet covered often
		key := fmt.Sprint(c.Code[0], c.Code[len(c.Code)-2], c.Expect.Err)
		if seenOps[key] >= 1 || k >= 120 {
			return
		}
		o := runISA(bytesOf(c.Bytes))
		if why, _ := judgeISA(&c, o); why != "" {
			fmt.Fprintln(os.Stderr, "assembled file disagrees with the specification, not recorded:", why)
			return
		}
		seenOps[key]++
		k++
		rec := corpusRec{Name: fmt.Sprintf("a-%03d", k), Origin: "assembled", Out: o.Out, ErrCls: o.Class, Err: o.Err, Warn: o.Warn, Disasm: o.Disasm}
		var out, lg bytes.Buffer
		p, _ := bcl.LoadProg(bytes.NewReader(bytesOf(c.Bytes)), "isa", bcl.OptOutput(&out), bcl.OptLogger(&lg), bcl.OptDisasm(true))
		execRecord(p, &out, &lg, &rec)
		write(rec, bytesOf(c.Bytes))
	})
	fmt.Println("corpus files written:", n)
	return 0
}

func corpusCheck(args []string) int {
	op := parseOpts(args)
	dir := op.str("dir", "corpus")
	s := newSummary("corpus")
	files, _ := filepath.Glob(filepath.Join(dir, "*.json"))
	sort.Strings(files)
	var usedProg *bcl.Prog
	var usedOut, usedLog *bytes.Buffer
	for _, jf := range files {
		var want corpusRec
		b, _ := os.ReadFile(jf)
		if json.Unmarshal(b, &want) != nil {
			continue
		}
		file, err := os.ReadFile(strings.TrimSuffix(jf, ".json") + ".bcb")
		if err != nil {
			continue
		}
		raw, _ := json.Marshal(map[string]any{"fam": "corpus", "name": want.Name, "origin": want.Origin})
		s.note([]byte(want.Name), true, raw)
		s.Judged++
		s.Classes[want.Origin]++
		var got corpusRec
		pan := ""
		func() {
			defer func() {
				if r := recover(); r != nil {
					pan = fmt.Sprint(r)
				}
			}()
			var out, lg bytes.Buffer
			p, err := bcl.LoadProg(bytes.NewReader(file), want.Name, bcl.OptOutput(&out), bcl.OptLogger(&lg), bcl.OptDisasm(true))
			if err != nil {
				pan = "LoadProg: " + err.Error()
				return
			}
			got = corpusRec{Name: want.Name, Origin: want.Origin, Source: want.Source}
			execRecord(p, &out, &lg, &got)
			// the same file handed over one byte per read means the same
			var out1, lg1 bytes.Buffer
			p1, err1 := bcl.LoadProg(&patReader{data: append([]byte{}, file...), pat: []int{1}}, want.Name, bcl.OptOutput(&out1), bcl.OptLogger(&lg1), bcl.OptDisasm(true))
			if err1 != nil {
				pan = "LoadProg (one byte per read): " + err1.Error()
				return
			}
			g1 := corpusRec{}
			execRecord(p1, &out1, &lg1, &g1)
			if g1.Out != got.Out || g1.ErrCls != got.ErrCls || g1.Blocks != got.Blocks || g1.Binding != got.Binding || g1.Disasm != got.Disasm {
				pan = "the file means something else when read one byte at a time"
				return
			}
			// the same file loaded with the Load method into a Prog that already holds another program (the previous file of the
			// corpus, or a parsed four-line source): nothing of the old program may survive
			if usedProg == nil {
				usedOut, usedLog = &bytes.Buffer{}, &bytes.Buffer{}
				usedProg, _ = bcl.Parse([]byte("print 1\nprint 2\n\nprint 3 +\n  4\n"), "used", bcl.OptOutput(usedOut), bcl.OptLogger(usedLog))
			}
			if usedProg != nil {
				if err := usedProg.Load(bytes.NewReader(file)); err != nil {
					pan = "Load into a Prog that held another program: " + err.Error()
					return
				}
				usedOut.Reset()
				usedLog.Reset()
				g2 := corpusRec{}
				execRecord(usedProg, usedOut, usedLog, &g2)
				if g2.Out != got.Out || g2.ErrCls != got.ErrCls || g2.Err != got.Err || g2.Blocks != got.Blocks || g2.Binding != got.Binding {
					pan = fmt.Sprintf("the file means something else when loaded into a Prog that held another program before (error %q, alone %q)", g2.Err, got.Err)
					return
				}
				if want.Origin == "compiler" {
					var d bytes.Buffer
					usedProg.Dump(&d)
					if !bytes.Equal(d.Bytes(), file) {
						pan = "a Prog that held another program before does not dump to the file it was loaded from"
						return
					}
				}
			}
			// a recorded compiler dump must also be what the compiler writes today for the same source (format stability of new dumps)
			if want.Origin == "compiler" {
				q, err := bcl.Parse([]byte(want.Source), strings.TrimPrefix(want.Name, "c-"), bcl.OptOutput(&bytes.Buffer{}), bcl.OptLogger(&bytes.Buffer{}))
				if err == nil {
					var d bytes.Buffer
					q.Dump(&d)
					if !bytes.Equal(d.Bytes(), file) {
						pan = "the dump written today for the recorded source differs from the recorded file"
					}
				}
			}
		}()
		switch {
		case pan != "":
			s.bad("corpus file "+want.Name+": "+pan, "corpus:load", raw, pan, true)
		case got.Out != want.Out || got.ErrCls != want.ErrCls || got.Blocks != want.Blocks || got.Binding != want.Binding || got.Warn != want.Warn:
			s.bad("corpus file "+want.Name+" no longer means what was recorded", "corpus:meaning", raw, map[string]any{"recorded": want, "now": got}, true)
		case got.Disasm != want.Disasm:
			s.drift("corpus-disassembly-text", want.Name)
		}
	}
	return s.write(op)
}

func init() {
	register("corpus-make", corpusMake)
	register("corpus-check", corpusCheck)
}
