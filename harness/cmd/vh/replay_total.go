package main

import (
	"bufio"
	"bytes"
	"encoding/json"
	"fmt"
	"io"
	"os"
	"os/exec"
	"reflect"
	"regexp"
	"strconv"
	"strings"
	"time"

	"github.com/wkhere/bcl"
)

// ---- the "total" family (C06): every input ends in a result or an error. Each case runs through all six entry points in a
// *child process* (a panic in one of the library's own goroutines cannot be recovered and kills the process: that is the
// observation), with a watchdog for hangs.

type totalCase struct {
	Fam    string `json:"fam"`
	Src    []int  `json:"src"`
	Shape  string `json:"shape"`
	N      int    `json:"n"`
	Expect []int  `json:"expect"`
	DCol   int    `json:"dcol"`
	NT     bool   `json:"nt"`
}

func scaleSource(shape string, n int) string {
	var sb strings.Builder
	switch shape {
	case "redundant-parens":
		sb.WriteString("print " + strings.Repeat("(", n) + "7" + strings.Repeat(")", n) + "\n")
	case "many-errors":
		sb.WriteString(strings.Repeat("print )\n", n) + "print 1\n")
	case "nested-parens":
		sb.WriteString("print " + strings.Repeat("1+(", n) + "1" + strings.Repeat(")", n) + "\n")
	case "right-assoc-or":
		sb.WriteString("print " + strings.Repeat("0 or ", n) + "1\n")
	case "unary-chain":
		sb.WriteString("print " + strings.Repeat("- ", n) + "1\n")
	case "nested-def":
		sb.WriteString(strings.Repeat("def a { ", n) + "f = 1 " + strings.Repeat("} ", n) + "\n")
	case "nested-def-then", "nested-def-twice":
		descent := func(sibling bool) {
			for d := 1; d <= n; d++ {
				fmt.Fprintf(&sb, "def a { print %d\n", d)
			}
			for d := n; d >= 1; d-- {
				if sibling && d < 16 {
					sb.WriteString("def s { print 0 }\n") // one more block at this level: d + 1 open at a time
				}
				sb.WriteString("}\n")
			}
		}
		descent(shape == "nested-def-then")
		if shape == "nested-def-twice" {
			descent(false)
		}
		sb.WriteString("def t { print 7 }\n")
	case "many-consts":
		sb.WriteString(strings.Repeat("eval 7\n", n))
		sb.WriteString("def zz { q = 1\n q = q + 1\n print q }\nprint 7\n")
	case "bind-late":
		sb.WriteString("def filler {\n")
		for i := 0; i < n; i++ {
			fmt.Fprintf(&sb, "g%d = \"s%d\"\n", i, i)
		}
		fmt.Fprintf(&sb, "}\ndef target \"t\" { k = %d }\nbind target -> struct\n", n)
	case "many-vars", "many-vars-read", "many-vars-in-block":
		if shape == "many-vars-in-block" {
			sb.WriteString("def b {\n")
		}
		for i := 0; i < n; i++ {
			fmt.Fprintf(&sb, "var v%d = %d\n", i, i%7)
		}
		if shape != "many-vars" && n > 0 {
			fmt.Fprintf(&sb, "print v0 + v%d\n", n-1)
		}
		if shape == "many-vars-in-block" {
			sb.WriteString("}\n")
		}
	case "vars-distinct", "vars-distinct-end":
		if shape == "vars-distinct-end" {
			sb.WriteString("def b {\n")
		}
		for i := 0; i < n; i++ {
			fmt.Fprintf(&sb, "var v%d = %d\n", i, 100+i)
		}
		if shape == "vars-distinct" {
			fmt.Fprintf(&sb, "print v0 + v%d\n", n-1)
		} else {
			sb.WriteString("}\n") // the block and then the program end right after the last declaration
			for i := 0; i < n; i++ {
				fmt.Fprintf(&sb, "var w%d = %d\n", i, 100+i)
			}
		}
	case "same-print":
		sb.WriteString([]string{
			"var a = 2.5\ndef r \"2.5\" { f = 1 }\nprint a\n",
			"var a = 3.0\ndef r \"3\" {}\nprint a + 1\n",
			"print \"2.5\" + 1\nprint 2.5 + 1\n",
			"var a = 7\nprint \"7\" + a\ndef b \"7\" {}\n",
			"def x \"true\" { f = true }\nprint \"true\"\n",
			"print 0.5\nprint \"0.5\"\ndef k \"0.5\" { }\nprint 1 and (0.25 or \"0.25\")\ndef k \"0.25\" {}\n",
		}[n%6])
	case "long-and", "long-or", "long-and-nt", "long-or-nt":
		m := (n - 2) / 2
		op := "and"
		first := "0" // the run that takes the short-circuit jump
		switch shape {
		case "long-or":
			op, first = "or", "1"
		case "long-and-nt":
			first = "1"
		case "long-or-nt":
			op, first = "or", "0"
		}
		sb.WriteString("print " + first + " " + op + " (1" + strings.Repeat("+1", m) + ")\n")
	case "repeat":
		if n < 0 {
			fmt.Fprintf(&sb, "var e = \"\"\nvar k = -%d\nprint \"\" * -%d == \"\"\nprint e * k\n", -n, -n) // the empty string too: nothing to repeat is still a negative count
			fmt.Fprintf(&sb, "print \"ab\" * -%d\n", -n)
		} else {
			fmt.Fprintf(&sb, "var s = \"a\" * %d\nprint 1\n", n)
		}
	case "block-value":
		// reading the key of a completed child block yields the block itself as a value: every operator must cope with it
		uses := []string{"eval b == b", "print b", "eval b + 1", "eval not b", "eval b and 1", "f = b", "eval b == 1", "eval -b",
			"eval b < b", "print b == nil", "var v = b\n eval v == v", "eval 1 == b", "eval \"s\" + b", "eval \"s\" * b", "eval b != b", "f = b\n eval f == b"}
		sb.WriteString("def a {\n def b { x = 1; y = 2; z = \"s\"; w = 4.5 }\n " + uses[n%len(uses)] + "\n}\n") // several fields: a rendering of the block has an order to get wrong
	case "unmarshal-nested":
		// bound blocks whose nested blocks / nil values / block values meet target fields of every Go kind (see totalTarget)
		sb.WriteString([]string{
			"def a { def b { x = 1 } }\nbind a -> struct\n",
			"def a { def c \"n\" { x = 1 } }\nbind a -> struct\n",
			"def a { def x { y = 1 } }\nbind a:all -> slice\n",
			"def a { def f { y = 1 } }\nbind a -> struct\n",
			"def a { def e { y = 1 } }\nbind a -> struct\n",
			"def a { b = nil }\nbind a -> struct\n",
			"def a { def b {}\n f = b }\nbind a -> struct\n",
			"def a \"nm\" { def s { x = 2 }\n def s \"k\" { x = 3 } }\nbind a -> struct\n",
			"def a { def g { def b { x = 1 } } }\nbind a -> struct\n",
			"def a { name = 3 }\ndef a { def name {} }\nbind a:last -> slice\n",
			"def a { p = 1 }\nbind a -> struct\n",
			"def a \"n\" { y = 1; q = \"s\" }\nbind a:all -> slice\n",
			"def a { def total_emb { p = 2 } }\nbind a -> struct\n",
			"def a { d = 8080 }\nbind a -> struct\n",
			"def a \"n\" { l = \"debug\"; y = 2 }\nbind a:all -> slice\n",
		}[n%15])
	case "div-int-zero":
		sb.WriteString("print 1/0\n")
	case "div-float-zero":
		sb.WriteString("print 1.5/0\n")
	case "float-div-zero":
		sb.WriteString("print 1/0.0\nprint -1/0.0\nprint 0.0/0.0\nprint 0/0.0\n")
	case "minint-neg":
		sb.WriteString("var m = -9223372036854775807 - 1\nprint m\nprint -m\nprint m / -1\nprint m * -1\nprint m - 1\n")
	case "int-overflow":
		sb.WriteString("print 9223372036854775807 + 1\nprint 9223372036854775807 * 2\nprint 0x7fffffffffffffff\n")
	case "huge-float":
		sb.WriteString("print 1e308 * 10\nprint -1e308 * 10\nprint 1e-320 / 1e10\nprint \"s\" + 1e308 * 10\n")
	case "cmp-nan":
		sb.WriteString("var inf = 1e308 * 10\nvar nan = inf - inf\nprint nan == nan\nprint nan < 1\nprint nan > 1\nprint not nan\nprint nan and 1\nprint \"\" + nan\n")
	case "many-binds":
		sb.WriteString("def a {}\n" + strings.Repeat("bind a -> struct\n", 100))
	case "long-ident":
		id := "v" + strings.Repeat("x", 70000)
		sb.WriteString("var " + id + " = 1\nprint " + id + "\ndef b { " + id + "f = 2 }\n")
	case "long-string":
		sb.WriteString("print \"" + strings.Repeat("s", 70000) + "\" == \"\"\n")
	default:
		panic("unknown shape " + shape)
	}
	return sb.String()
}

// the Unmarshal target of the C06 replays: fields of every kind a nested block, a nil or a block value may be aimed at
// (an anonymous struct type: a named one would have to match the block type by name)
type totalTarget = struct {
	Name      string
	F         any
	B         *int
	C         map[string]int
	X         []int
	E         [2]int
	S         struct{ X int }
	G         *struct{ B int }
	Y         int
	D         TotalPort // named scalar types: the kind of a value matches, the type does not
	L         TotalLevel
	*TotalEmb // an embedded pointer, nil: its promoted fields P and Q are found by name but cannot be reached
}

type TotalPort int
type TotalLevel string

// TotalEmb is embedded by pointer in the C06 target
type TotalEmb struct {
	P int
	Q string
}

type totalRes struct {
	API   string `json:"api"`
	Class string `json:"class"` // ok | error | panic
	Msg   string `json:"msg,omitempty"`
}

var totalAPIs = []string{"Parse", "Interpret", "Unmarshal", "ParseFile", "InterpretFile", "UnmarshalFile", "InterpretFile/z", "ParseFile/e", "Interpret/o", "InterpretFile/o"}

func runAPI(api string, src []byte) (r totalRes) {
	r.API = api
	if len(src) > 20000 && (strings.HasSuffix(api, "/z") || strings.HasSuffix(api, "/e")) {
		r.Class = "ok" // the scaled inputs are not replayed in 8-byte reads
		return r
	}
	defer func() {
		if x := recover(); x != nil {
			r.Class, r.Msg = "panic", fmt.Sprint(x)+" @"+panicSite()
		}
	}()
	opts := []bcl.Option{bcl.OptLogger(io.Discard), bcl.OptOutput(io.Discard)}
	if strings.HasSuffix(api, "/o") {
		// the "/o" entry points: the same calls with the listing, the trace and the statistics switched on
		if len(src) > 20000 {
			r.Class = "ok"
			return r
		}
		api = strings.TrimSuffix(api, "/o")
		opts = append(opts, bcl.OptDisasm(true), bcl.OptTrace(true), bcl.OptStats(true))
	}
	var err error
	var t totalTarget
	// the file variants get the input in 4096-byte pages, or (the "/z" entry points) in 8-byte reads each followed by a zero-byte read
	zero := strings.HasSuffix(api, "/z")
	eofData := strings.HasSuffix(api, "/e") // 8-byte reads, the last one returning its data together with io.EOF
	api = strings.TrimSuffix(strings.TrimSuffix(api, "/z"), "/e")
	file := func() *scriptedFile {
		if eofData {
			st := chopped(string(src), 8, nil)
			if len(st) > 0 {
				st[len(st)-1].err = io.EOF
			}
			return &scriptedFile{name: "t.bcl", steps: st}
		}
		if !zero {
			return &scriptedFile{name: "t.bcl", steps: chopped(string(src), 4096, nil)}
		}
		var st []readStep
		for _, c := range chopped(string(src), 8, nil) {
			st = append(st, c, readStep{})
		}
		return &scriptedFile{name: "t.bcl", steps: st}
	}
	switch api {
	case "Parse":
		_, err = bcl.Parse(src, "t", opts...)
	case "Interpret":
		_, _, err = bcl.Interpret(src, opts...)
	case "Unmarshal":
		err = bcl.Unmarshal(src, &t, opts...)
		if err == nil || true {
			var ts []totalTarget
			_ = bcl.Unmarshal(src, &ts, opts...) // and into a slice target
		}
	case "ParseFile":
		_, err = bcl.ParseFile(file(), opts...)
	case "InterpretFile":
		_, _, err = bcl.InterpretFile(file(), opts...)
	case "UnmarshalFile":
		err = bcl.UnmarshalFile(file(), &t, opts...)
	}
	if err != nil {
		r.Class, r.Msg = "error", err.Error()
		if len(r.Msg) > 200 {
			r.Msg = r.Msg[:200]
		}
	} else {
		r.Class = "ok"
	}
	return r
}

// total-worker: one source per input line (JSON array of ints), one result line per source
func totalWorker(args []string) int {
	in := bufio.NewReaderSize(os.Stdin, 1<<22)
	out := bufio.NewWriter(os.Stdout)
	for {
		line, err := in.ReadBytes('\n')
		if len(line) > 1 {
			var src []int
			if json.Unmarshal(line, &src) == nil {
				b := bytesOf(src)
				var rs []totalRes
				for _, api := range totalAPIs {
					rs = append(rs, runAPI(api, b))
				}
				js, _ := json.Marshal(rs)
				out.Write(js)
				out.WriteByte('\n')
				out.Flush()
			}
		}
		if err != nil {
			return 0
		}
	}
}

type worker struct {
	cmd    *exec.Cmd
	in     io.WriteCloser
	out    *bufio.Reader
	stderr *bytes.Buffer
}

func startWorker() *worker {
	cmd := exec.Command(os.Args[0], "total-worker")
	in, _ := cmd.StdinPipe()
	outp, _ := cmd.StdoutPipe()
	var se bytes.Buffer
	cmd.Stderr = &se
	if err := cmd.Start(); err != nil {
		fmt.Fprintln(os.Stderr, "cannot start worker:", err)
		os.Exit(2)
	}
	return &worker{cmd, in, bufio.NewReaderSize(outp, 1<<20), &se}
}

var reGoPanic = regexp.MustCompile(`(?m)^panic: (.*)$`)
var reBclFrame = regexp.MustCompile(`github\.com/wkhere/bcl\.([\w\.\(\)\*]+)\(`)

func replayTotal(args []string) int {
	op := parseOpts(args)
	wd := time.Duration(op.int("watchdog", 10)) * time.Second
	s := newSummary("total")
	w := startWorker()
	defer func() { w.in.Close(); w.cmd.Wait() }()
	eachCase(openIn(op), func(raw []byte) {
		var c totalCase
		if err := json.Unmarshal(raw, &c); err != nil {
			s.Skipped++
			return
		}
		if s.ShapeCounts["hang"] >= 6 || s.MismatchCount >= 40 {
			s.Skipped++ // enough to report: every hanging input costs a whole watchdog period, and the generator is waiting
			return
		}
		src := bytesOf(c.Src)
		if c.Shape != "" {
			src = []byte(scaleSource(c.Shape, c.N))
		}
		key := src
		if len(key) > 4096 {
			key = []byte(c.Shape + strconv.Itoa(c.N))
		}
		if !s.note(key, c.NT || (c.Fam == "gram" && c.N >= 3), raw) {
			return
		}
		s.Judged++
		js, _ := json.Marshal(intsOf(src))
		w.in.Write(append(js, '\n'))
		type reply struct {
			line []byte
			err  error
		}
		ch := make(chan reply, 1)
		go func() {
			l, e := w.out.ReadBytes('\n')
			ch <- reply{l, e}
		}()
		var rep reply
		select {
		case rep = <-ch:
		case <-time.After(wd):
			w.cmd.Process.Kill()
			w.cmd.Wait()
			s.bad("no answer within the watchdog: a call hangs", "hang", raw, string(trunc(src, 300)), true)
			w = startWorker()
			return
		}
		if rep.err != nil || len(rep.line) < 2 {
			// the child died: a panic outside the caller's goroutine (or a fatal error)
			w.cmd.Wait()
			se := w.stderr.String()
			msg := "process died"
			if m := reGoPanic.FindStringSubmatch(se); m != nil {
				msg = m[1]
			}
			site := "?"
			if m := reBclFrame.FindStringSubmatch(se); m != nil {
				site = m[1]
			}
			if strings.Contains(se, "all goroutines are asleep") {
				s.bad("the call can never return: every goroutine of the process is blocked (the Go runtime reports a deadlock)", "deadlock:"+site, raw, map[string]string{"src": string(trunc(src, 300)), "stderr": string(trunc([]byte(se), 1500))}, true)
				w = startWorker()
				return
			}
			s.bad("the process died while handling the input ("+msg+"): a panic in a goroutine of the library", "died:"+site, raw, map[string]string{"src": string(trunc(src, 300)), "stderr": string(trunc([]byte(se), 1500))}, true)
			w = startWorker()
			return
		}
		var rs []totalRes
		json.Unmarshal(rep.line, &rs)
		if len(c.Expect) > 0 {
			// shapes whose outcome the specification states in closed form
			var out, lg bytes.Buffer
			var ierr error
			var ires []bcl.Block
			var ibind bcl.Binding
			func() {
				defer func() {
					if r := recover(); r != nil {
						ierr = fmt.Errorf("PANIC: %v", r)
					}
				}()
				ires, ibind, ierr = bcl.Interpret(src, bcl.OptOutput(&out), bcl.OptLogger(&lg))
			}()
			if c.DCol > 0 && ierr != nil {
				// the diagnostic of the over-long jump sits just after the ')' closing the operand (line 1, column in closed form)
				first := strings.SplitN(lg.String(), "\n", 2)[0]
				if want := fmt.Sprintf("line 1:%d: error at ')'", c.DCol); !strings.HasPrefix(first, want) {
					s.bad(fmt.Sprintf("%s n=%d: the diagnostic reads %q, the offending operand ends at %q", c.Shape, c.N, first, want), "limit:jump-diagnostic-location", raw, first, true)
				}
			}
			want := string(bytesOf(c.Expect))
			switch {
			case want == "b":
				sb, ok := ibind.(bcl.StructBinding)
				if ierr != nil || !ok || len(ires) != 2 || sb.Value.Type != "target" || sb.Value.Name != "t" || !reflect.DeepEqual(sb.Value.Fields, map[string]any{"k": c.N}) {
					s.bad(fmt.Sprintf("%s n=%d: the binding must be the one block of type target (name t, k = %d), got err=%v binding=%+v (%d result blocks)", c.Shape, c.N, c.N, ierr, ibind, len(ires)), "scale:binding", raw, fmt.Sprintf("%+v", ibind), true)
				}
			case want == "e":
				if ierr == nil || strings.HasPrefix(ierr.Error(), "runtime error") || out.Len() != 0 || len(ires) != 0 {
					s.bad(fmt.Sprintf("%s n=%d: must be rejected at compile time with nothing printed, got err=%v out=%q", c.Shape, c.N, ierr, trunc(out.Bytes(), 60)), "errscale:accepted", raw, string(trunc(out.Bytes(), 200)), true)
					break
				}
				seen := map[int]bool{}
				for _, l := range strings.Split(lg.String(), "\n") {
					if m := reDiag.FindStringSubmatch(l); m != nil {
						li, _ := strconv.Atoi(m[1])
						seen[li] = true
					}
				}
				for li := 1; li <= c.N; li++ {
					if !seen[li] {
						s.bad(fmt.Sprintf("%s n=%d: the broken statement on line %d has no diagnostic of its own (%d lines have one)", c.Shape, c.N, li, len(seen)), "errscale:diagnostic-missing", raw, string(trunc(lg.Bytes(), 300)), true)
						break
					}
				}
			case want == "r":
				if ierr == nil || !strings.HasPrefix(ierr.Error(), "runtime error") {
					s.bad(fmt.Sprintf("%s n=%d: more blocks open at a time than the limit must be a runtime error, got err=%v", c.Shape, c.N, ierr), "limit:blocks-accepted", raw, string(trunc(out.Bytes(), 200)), true)
				}
			case want == "c" && (ierr == nil || strings.HasPrefix(ierr.Error(), "runtime error")):
				s.bad(fmt.Sprintf("%s n=%d: a jump distance beyond 65535 must be rejected at compile time, got err=%v out=%q", c.Shape, c.N, ierr, trunc(out.Bytes(), 60)), "limit:jump-accepted", raw, string(trunc(out.Bytes(), 200)), true)
			case want != "c" && (ierr != nil || out.String() != want+"\n"):
				s.bad(fmt.Sprintf("%s n=%d: the language says it prints %s, got err=%v out=%q", c.Shape, c.N, want, ierr, trunc(out.Bytes(), 80)), "scale:result:"+c.Shape, raw, string(trunc(out.Bytes(), 200)), true)
			}
		}
		for _, r := range rs {
			s.Classes[r.Class]++
			if r.Class == "panic" {
				site := r.Msg[strings.LastIndex(r.Msg, "@")+1:]
				s.bad(r.API+" panicked: "+r.Msg, "panic:"+site, raw, map[string]any{"src": string(trunc(src, 300)), "results": rs}, true)
				break
			}
		}
	})
	return s.write(op)
}

func trunc(b []byte, n int) []byte {
	if len(b) > n {
		return append(append([]byte{}, b[:n]...), []byte("…")...)
	}
	return b
}

func init() {
	register("replay-total", replayTotal)
	register("total-worker", totalWorker)
}
