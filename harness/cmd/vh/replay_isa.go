package main

import (
	"bytes"
	"encoding/json"
	"fmt"
	"strings"

	"github.com/wkhere/bcl"
)

// ---- the "isa" family (C14): files assembled by the specification (EncodeProg) with the outcome BclVM computes

type isaCase struct {
	Fam    string `json:"fam"`
	Bytes  []int  `json:"bytes"`
	Code   []int  `json:"code"`
	Expect struct {
		OOD   bool   `json:"ood"`
		Err   string `json:"err"`
		Out   []int  `json:"out"`
		NRes  int    `json:"nres"`
		Warn  int    `json:"warn"`
		BKind string `json:"bkind"`
		BN    int    `json:"bn"`
		Ops   int    `json:"ops"`
	} `json:"expect"`
	NT bool `json:"nt"`
}

type isaObs struct {
	Panic   string `json:"panic,omitempty"`
	LoadErr string `json:"load_err,omitempty"`
	Err     string `json:"err"`
	Class   string `json:"class"`
	Out     string `json:"out"`
	NRes    int    `json:"nres"`
	Warn    int    `json:"warn"`
	BKind   string `json:"bkind"`
	BN      int    `json:"bn"`
	Disasm  string `json:"disasm,omitempty"`
}

func runISA(file []byte) (o isaObs) {
	defer func() {
		if r := recover(); r != nil {
			o.Panic = fmt.Sprint(r) + " @" + panicSite()
		}
	}()
	var out, lg bytes.Buffer
	p, err := bcl.LoadProg(bytes.NewReader(file), "isa", bcl.OptOutput(&out), bcl.OptLogger(&lg), bcl.OptDisasm(true))
	if err != nil {
		o.LoadErr = err.Error()
		return o
	}
	o.Disasm = out.String()
	out.Reset()
	res, bind, xerr := bcl.Execute(p)
	if xerr != nil {
		o.Err = xerr.Error()
	}
	o.Class = vmErrClass(xerr)
	o.Out, o.NRes, o.Warn = out.String(), len(res), strings.Count(lg.String(), "WARNING: ")
	o.BKind, o.BN = bindKind(bind)
	return o
}

func judgeISA(c *isaCase, o isaObs) (why, shape string) {
	e := c.Expect
	switch {
	case o.Panic != "":
		return "panic on a well-formed version 1.1 file: " + o.Panic, "isa:panic"
	case o.LoadErr != "":
		return "a well-formed version 1.1 file is rejected: " + o.LoadErr, "isa:rejected"
	case o.Class != e.Err:
		return fmt.Sprintf("error class %q (%s), the instruction set says %q", o.Class, o.Err, e.Err), "isa:error-class"
	case o.Out != string(bytesOf(e.Out)):
		return fmt.Sprintf("printed %q, the instruction set says %q", o.Out, string(bytesOf(e.Out))), "isa:output"
	case o.NRes != e.NRes:
		return fmt.Sprintf("%d result blocks, the instruction set says %d", o.NRes, e.NRes), "isa:blocks"
	case o.Warn != e.Warn:
		return fmt.Sprintf("%d warnings, the instruction set says %d", o.Warn, e.Warn), "isa:warnings"
	case e.Err == "" && (o.BKind != e.BKind || o.BN != e.BN):
		return fmt.Sprintf("binding %s/%d, the instruction set says %s/%d", o.BKind, o.BN, e.BKind, e.BN), "isa:binding"
	}
	return "", ""
}

func replayISA(args []string) int {
	op := parseOpts(args)
	s := newSummary("isa")
	opcodes := map[int]bool{}
	eachCase(openIn(op), func(raw []byte) {
		var c isaCase
		if err := json.Unmarshal(raw, &c); err != nil {
			s.Skipped++
			return
		}
		if !s.note(raw, c.NT && !c.Expect.OOD, raw) {
			return
		}
		if c.Expect.OOD {
			s.OOD++
			return
		}
		s.Judged++
		s.Classes[c.Expect.Err]++
		o := runISA(bytesOf(c.Bytes))
		if why, shape := judgeISA(&c, o); why != "" {
			why2, _ := judgeISA(&c, runISA(bytesOf(c.Bytes)))
			s.bad(why, shape, raw, o, why2 != "")
		}
		_ = opcodes
	})
	return s.write(op)
}

func init() { register("replay-isa", replayISA) }
