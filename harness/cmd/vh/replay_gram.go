package main

import (
	"bytes"
	"encoding/json"
	"fmt"
	"regexp"
	"strconv"
	"strings"

	"github.com/wkhere/bcl"
)

// ---- the "gram" family (C17): a source and the L1 verdict accept/reject; optional lines that must carry a diagnostic

type gramCase struct {
	Fam  string `json:"fam"`
	Src  []int  `json:"src"`
	Acc  bool   `json:"acc"`
	Der  bool   `json:"der"`
	N    int    `json:"n"`
	Mut  bool   `json:"mut"`
	Must []int  `json:"must"`
}

var diagRe = regexp.MustCompile(`^line (\d+):(\d+): error`)

type gramObs struct {
	Panic  string `json:"panic,omitempty"`
	Site   string `json:"site,omitempty"`
	Err    string `json:"err"`
	Log    string `json:"log"`
	Blocks int    `json:"blocks"`
	HasRes bool   `json:"has_results"`
}

func gramRun(src []byte) (o gramObs) {
	var out, lg bytes.Buffer
	func() {
		defer func() {
			if r := recover(); r != nil {
				o.Panic, o.Site = fmt.Sprint(r), panicSite()
			}
		}()
		_, err := bcl.Parse(src, "t", bcl.OptLogger(&lg), bcl.OptOutput(&out))
		if err != nil {
			o.Err = err.Error()
			// a rejected source must give no results from Interpret either
			res, bind, ierr := bcl.Interpret(src, bcl.OptLogger(&bytes.Buffer{}), bcl.OptOutput(&bytes.Buffer{}))
			o.HasRes = res != nil || bind != nil || ierr == nil
			o.Blocks = len(res)
		}
	}()
	o.Log = lg.String()
	return o
}

func judgeGram(c *gramCase, o gramObs) (why, shape string) {
	if o.Panic != "" {
		return "panic: " + o.Panic, "panic:" + o.Site
	}
	rejected := o.Err != ""
	switch {
	case rejected && c.Acc:
		return "rejects a source the grammar derives: " + strings.TrimSpace(o.Log), "rejects-valid"
	case !rejected && !c.Acc:
		return "accepts a source the grammar does not derive", "accepts-invalid"
	case !rejected && o.Log != "":
		return "diagnostic written on acceptance", "diag-on-accept"
	case !rejected:
		return "", ""
	}
	if o.HasRes {
		return "Interpret returned results (or no error) for a rejected source", "results-on-reject"
	}
	lines := strings.Split(strings.TrimRight(o.Log, "\n"), "\n")
	if o.Log == "" {
		return "rejected without a diagnostic", "no-diagnostic"
	}
	have := map[int]int{}
	for _, l := range lines {
		m := diagRe.FindStringSubmatch(l)
		if m == nil {
			return "diagnostic line not of the form 'line L:C: error...': " + l, "diag-form"
		}
		n, _ := strconv.Atoi(m[1])
		have[n]++
	}
	for i, min := range c.Must {
		if have[i+1] < min {
			return fmt.Sprintf("line %d carries %d diagnostic(s); %d broken statement(s) must be reported there (a later broken statement got no diagnostic of its own)", i+1, have[i+1], min), "recovery"
		}
	}
	return "", ""
}

func replayGram(args []string) int {
	o := parseOpts(args)
	s := newSummary("gram")
	eachCase(openIn(o), func(raw []byte) {
		var c gramCase
		if err := json.Unmarshal(raw, &c); err != nil {
			s.Skipped++
			return
		}
		src := bytesOf(c.Src)
		if !s.note(src, c.N >= 3, raw) {
			return
		}
		if c.Acc {
			s.Classes["accept"]++
		} else {
			s.Classes["reject"]++
		}
		s.Judged++
		obs := gramRun(src)
		if why, shape := judgeGram(&c, obs); why != "" {
			why2, shape2 := judgeGram(&c, gramRun(src))
			s.bad(why, shape, raw, obs, why2 != "" && shape2 == shape)
		}
	})
	return s.write(o)
}

func init() { register("replay-gram", replayGram) }
