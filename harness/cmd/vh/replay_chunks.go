package main

import (
	"bytes"
	"encoding/json"
	"fmt"
	"io"
	"strings"
	"sync/atomic"
	"time"

	"github.com/wkhere/bcl"
)

// ---- the "chunks" family (C07): an input and a delivery; ParseFile under the delivery must equal Parse on the whole input

type chunksCase struct {
	Fam        string `json:"fam"`
	Scope      string `json:"scope"`
	Src        []int  `json:"src"`
	Cuts       []int  `json:"cuts"`
	Zero       int    `json:"zero"`
	EOFData    bool   `json:"eofdata"`
	K          int    `json:"k"`
	NTok       int    `json:"ntok"`
	SplitsRune bool   `json:"splitsRune"`
	NT         bool   `json:"nt"`
}

type readStep struct {
	data []byte
	err  error
}

// scriptedFile plays a fixed sequence of Read results; afterwards it keeps returning (0, EOF)
type scriptedFile struct {
	name   string
	steps  []readStep
	i      int
	reads  int32
	closes int32
	onRead func(i int)
}

func (f *scriptedFile) Name() string { return f.name }
func (f *scriptedFile) Close() error { atomic.AddInt32(&f.closes, 1); return nil }
func (f *scriptedFile) Read(p []byte) (int, error) {
	atomic.AddInt32(&f.reads, 1)
	if f.onRead != nil {
		f.onRead(f.i)
	}
	if f.i >= len(f.steps) {
		return 0, io.EOF
	}
	st := &f.steps[f.i]
	n := copy(p, st.data)
	if n < len(st.data) {
		st.data = st.data[n:]
		return n, nil
	}
	f.i++
	return n, st.err
}

type parseObs struct {
	Err   string `json:"err"`
	Log   string `json:"log"`
	Dump  string `json:"dump"`
	Panic string `json:"panic,omitempty"`
	Hang  bool   `json:"hang,omitempty"`
}

func dumpHex(p *bcl.Prog) string {
	var b bytes.Buffer
	if err := p.Dump(&b); err != nil {
		return "dump error: " + err.Error()
	}
	return fmt.Sprintf("%x", b.Bytes())
}

func parseWhole(src []byte, name string) (o parseObs) {
	defer func() {
		if r := recover(); r != nil {
			o.Panic = fmt.Sprint(r)
		}
	}()
	var lg bytes.Buffer
	p, err := bcl.Parse(src, name, bcl.OptLogger(&lg), bcl.OptOutput(io.Discard))
	o.Log = lg.String()
	if err != nil {
		o.Err = err.Error()
		return o
	}
	o.Dump = dumpHex(p)
	return o
}

// parseFileWatch runs ParseFile in a goroutine with a watchdog (a hang must not stop the replay)
func parseFileWatch(f *scriptedFile, wd time.Duration) (o parseObs) {
	done := make(chan parseObs, 1)
	go func() {
		var r parseObs
		defer func() {
			if x := recover(); x != nil {
				r.Panic = fmt.Sprint(x)
			}
			done <- r
		}()
		var lg bytes.Buffer
		p, err := bcl.ParseFile(f, bcl.OptLogger(&lg), bcl.OptOutput(io.Discard))
		r.Log = lg.String()
		if err != nil {
			r.Err = err.Error()
			return
		}
		r.Dump = dumpHex(p)
	}()
	select {
	case o = <-done:
		return o
	case <-time.After(wd):
		return parseObs{Hang: true}
	}
}

func splitAt(src []byte, cuts []int) [][]byte {
	var out [][]byte
	from := 0
	for _, c := range cuts {
		out = append(out, src[from:c])
		from = c
	}
	return append(out, src[from:])
}

func (c *chunksCase) build() (src []byte, steps []readStep) {
	bs := bytesOf(c.Src)
	if c.Scope == "page" {
		pad := 4096 - c.K - 2
		src = append([]byte("#"+strings.Repeat(".", pad)+"\n"), bs...)
		return src, []readStep{{data: src}} // delivered in 4096-byte pages by Read's buffer size
	}
	src = bs
	chunks := splitAt(bs, c.Cuts)
	for i, ch := range chunks {
		if c.Zero == i+1 {
			steps = append(steps, readStep{})
		}
		steps = append(steps, readStep{data: ch})
	}
	if c.EOFData {
		steps[len(steps)-1].err = io.EOF
	}
	return src, steps
}

func replayChunks(args []string) int {
	op := parseOpts(args)
	s := newSummary("chunks")
	hangs := 0
	eachCase(openIn(op), func(raw []byte) {
		var c chunksCase
		if err := json.Unmarshal(raw, &c); err != nil {
			s.Skipped++
			return
		}
		if !s.note(raw, c.NT, raw) {
			return
		}
		if hangs >= 25 && c.Zero != 0 {
			s.Skipped++ // zero-byte reads already shown to hang; do not wait for each of them
			s.Extra["skipped_after_hangs"] = intOf(s.Extra["skipped_after_hangs"]) + 1
			return
		}
		s.Judged++
		src, steps := c.build()
		whole := parseWhole(src, "in.bcl")
		run := func(st []readStep) parseObs {
			cp := make([]readStep, len(st))
			copy(cp, st)
			return parseFileWatch(&scriptedFile{name: "in.bcl", steps: cp}, 3*time.Second)
		}
		got := run(steps)
		if got == whole {
			return
		}
		shape := "chunking"
		why := "ParseFile under this delivery differs from Parse on the whole input"
		switch {
		case got.Hang:
			hangs++
			shape, why = "hang", "ParseFile did not return within the watchdog"
		case got.Panic != "":
			shape, why = "panic", "ParseFile panicked: "+got.Panic
		}
		if c.Zero != 0 {
			// does it differ only because of the zero-byte read?
			var nz []readStep
			for _, st := range steps {
				if len(st.data) > 0 || st.err != nil {
					nz = append(nz, st)
				}
			}
			if run(nz) == whole {
				shape += ":zero-read"
			}
		}
		if !strings.Contains(shape, "zero-read") && c.SplitsRune {
			shape += ":rune-split"
		}
		again := run(steps)
		s.bad(why, shape, raw, map[string]any{"whole": whole, "chunked": got}, again != whole)
	})
	return s.write(op)
}

func init() { register("replay-chunks", replayChunks) }
