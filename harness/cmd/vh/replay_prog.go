package main

import (
	"bytes"
	"encoding/json"
	"fmt"
	"io"
	"reflect"
	"regexp"
	"runtime"
	"strings"

	"github.com/wkhere/bcl"
)

// ---- the "prog" case family (C01..C04): a source text with the complete meaning the specification gives it

type entJ struct {
	K    string `json:"k"`
	Kind string `json:"kind"`
	T    string `json:"t"`
	N    int    `json:"n"`
	D    int    `json:"d"`
	S    []int  `json:"s"`
	B    []blkJ `json:"b"`
}
type blkJ struct {
	Type string `json:"type"`
	Name string `json:"name"`
	Ents []entJ `json:"ents"`
}
type progCase struct {
	Fam     string  `json:"fam"`
	Src     []int   `json:"src"`
	Class   string  `json:"class"`
	Out     [][]int `json:"out"`
	Err     string  `json:"err"`
	Warn    int     `json:"warn"`
	Result  []blkJ  `json:"result"`
	BKind   string  `json:"bkind"`
	BBlocks []blkJ  `json:"bblocks"`
	NT      bool    `json:"nt"`
}

func valOf(e entJ) any {
	switch e.T {
	case "int":
		return e.N
	case "float":
		return float64(e.N) / float64(e.D)
	case "str":
		return string(bytesOf(e.S))
	case "bool":
		return e.N == 1
	case "nil":
		return nil
	}
	panic("bad value kind " + e.T)
}

// symName replaces the symbols the specification uses for block names that need escapes in their literals (NameBytes of BclSem)
var symName = strings.NewReplacer("Q", "q\"\\\t\u00e9", "H", "A")

func toBlock(x blkJ) bcl.Block {
	f := map[string]any{}
	for _, e := range x.Ents {
		k := e.K
		if e.Kind == "blk" {
			if i := strings.IndexByte(k, '.'); i >= 0 {
				k = k[:i+1] + symName.Replace(k[i+1:])
			}
			f[k] = toBlock(e.B[0])
		} else {
			f[k] = valOf(e)
		}
	}
	return bcl.Block{Type: x.Type, Name: symName.Replace(x.Name), Fields: f}
}

// heldResults: results returned by earlier calls are kept (the slices themselves) together with how they looked when they were
// returned; after every later call they must still look the same (a result belongs to its caller)
type heldResult struct {
	res  []bcl.Block
	bind bcl.Binding
	was  string
	raw  []byte
}

var held []heldResult

func holdResult(res []bcl.Block, bind bcl.Binding, raw []byte) {
	if len(res) == 0 && bind == nil {
		return
	}
	held = append(held, heldResult{res, bind, canonBlocks(res) + " / " + canonBinding(bind), append([]byte{}, raw...)})
	if len(held) > 6 {
		held = held[1:]
	}
}

func heldChanged() (why string, raw []byte) {
	for i, h := range held {
		if now := canonBlocks(h.res) + " / " + canonBinding(h.bind); now != h.was {
			held = append(held[:i], held[i+1:]...)
			return "a result returned by an earlier call changed while later calls ran: was " + h.was + ", is " + now, h.raw
		}
	}
	return "", nil
}

func toBlocks(xs []blkJ) []bcl.Block {
	o := []bcl.Block{}
	for _, x := range xs {
		o = append(o, toBlock(x))
	}
	return o
}

// panicSite names the innermost function of package bcl on the panicking stack
func panicSite() string {
	pcs := make([]uintptr, 64)
	n := runtime.Callers(3, pcs)
	frames := runtime.CallersFrames(pcs[:n])
	for {
		fr, more := frames.Next()
		if strings.Contains(fr.Function, "github.com/wkhere/bcl.") {
			fn := fr.Function[strings.Index(fr.Function, "github.com/wkhere/bcl.")+len("github.com/wkhere/bcl."):]
			return fn
		}
		if !more {
			break
		}
	}
	return "?"
}

type progObs struct {
	Panic   string      `json:"panic,omitempty"`
	Site    string      `json:"site,omitempty"`
	Err     string      `json:"err"`
	Out     string      `json:"out"`
	Log     string      `json:"log"`
	Result  []bcl.Block `json:"result"`
	Binding string      `json:"binding"`
	res     []bcl.Block
	bind    bcl.Binding
	err     error
}

func interpretGuarded(src []byte, extra ...bcl.Option) (o progObs) {
	var out, lg bytes.Buffer
	func() {
		defer func() {
			if r := recover(); r != nil {
				o.Panic = fmt.Sprint(r)
				o.Site = panicSite()
			}
		}()
		oo := append([]bcl.Option{bcl.OptOutput(&out), bcl.OptLogger(&lg)}, extra...)
		o.res, o.bind, o.err = bcl.Interpret(src, oo...)
	}()
	if o.err != nil {
		o.Err = o.err.Error()
	}
	o.Out, o.Log, o.Result = out.String(), lg.String(), o.res
	o.Binding = fmt.Sprintf("%+v", o.bind)
	return o
}

// viaDumpLoad runs the program as a loaded bytecode file, with the load given the caller's writers
func viaDumpLoad(src []byte) (o progObs, ok bool) {
	var out, lg bytes.Buffer
	func() {
		defer func() {
			if r := recover(); r != nil {
				o.Panic = fmt.Sprint(r)
				o.Site = panicSite()
			}
		}()
		p, err := bcl.Parse(src, "input", bcl.OptOutput(io.Discard), bcl.OptLogger(io.Discard))
		if err != nil {
			return
		}
		var d bytes.Buffer
		if p.Dump(&d) != nil {
			return
		}
		q, err := bcl.LoadProg(&d, "input", bcl.OptOutput(&out), bcl.OptLogger(&lg))
		if err != nil {
			o.Err = "load: " + err.Error()
			ok = true
			return
		}
		ok = true
		o.res, o.bind, o.err = bcl.Execute(q)
	}()
	if o.err != nil {
		o.Err = o.err.Error()
	}
	o.Out, o.Log, o.Result = out.String(), lg.String(), o.res
	o.Binding = fmt.Sprintf("%+v", o.bind)
	return o, ok || o.Panic != ""
}

// eofDataReader hands over everything it has in one read, together with io.EOF
type eofDataReader struct {
	data []byte
	done bool
}

func (r *eofDataReader) Read(p []byte) (int, error) {
	if r.done || len(r.data) == 0 {
		return 0, io.EOF
	}
	n := copy(p, r.data)
	r.data = r.data[n:]
	if len(r.data) == 0 {
		r.done = true
		return n, io.EOF
	}
	return n, nil
}
func (r *eofDataReader) Close() error { return nil }
func (r *eofDataReader) Name() string { return "input" }

// viaFile runs the program through InterpretFile from a reader that delivers its last data together with io.EOF
func viaFile(src []byte) (o progObs) {
	var out, lg bytes.Buffer
	func() {
		defer func() {
			if r := recover(); r != nil {
				o.Panic = fmt.Sprint(r)
				o.Site = panicSite()
			}
		}()
		o.res, o.bind, o.err = bcl.InterpretFile(&eofDataReader{data: append([]byte{}, src...)}, bcl.OptOutput(&out), bcl.OptLogger(&lg))
	}()
	if o.err != nil {
		o.Err = o.err.Error()
	}
	o.Out, o.Log, o.Result = out.String(), lg.String(), o.res
	o.Binding = fmt.Sprintf("%+v", o.bind)
	return o
}

// viaReexec parses once and executes twice; the observation is that of the second execution (a Prog is not used up by running it)
func viaReexec(src []byte) (o progObs, ok bool) {
	var out, lg bytes.Buffer
	func() {
		defer func() {
			if r := recover(); r != nil {
				o.Panic = fmt.Sprint(r)
				o.Site = panicSite()
			}
		}()
		p, err := bcl.Parse(src, "input", bcl.OptOutput(&out), bcl.OptLogger(&lg))
		if err != nil {
			return
		}
		bcl.Execute(p)
		out.Reset()
		lg.Reset()
		ok = true
		o.res, o.bind, o.err = bcl.Execute(p)
	}()
	if o.err != nil {
		o.Err = o.err.Error()
	}
	o.Out, o.Log, o.Result = out.String(), lg.String(), o.res
	o.Binding = fmt.Sprintf("%+v", o.bind)
	return o, ok || o.Panic != ""
}

var rtErrRe = regexp.MustCompile(`^runtime error: line \d+:\d+: `)

// judgeProg compares one observation with the predicted meaning; returns (why, shape, driftNote)
func judgeProg(c *progCase, o progObs) (why, shape, drift string) {
	if o.Panic != "" {
		return "panic: " + o.Panic, "panic:" + o.Site, ""
	}
	wantOut := ""
	for _, l := range c.Out {
		wantOut += string(bytesOf(l)) + "\n"
	}
	warns := strings.Count(o.Log, "WARNING: ")
	switch c.Class {
	case "compile-error":
		switch {
		case o.err == nil:
			return "accepted a program the language rejects", "class:accepted", ""
		case rtErrRe.MatchString(o.Err):
			return "runtime error where a compile error is required", "class:runtime-for-compile", ""
		case o.res != nil || o.bind != nil:
			return "results returned with a compile error", "class:results-on-reject", ""
		case o.Out != "":
			return "output printed by a rejected program", "output", ""
		case !strings.Contains(o.Log, ": error"):
			return "no diagnostic on the log writer", "diag:none", ""
		}
		return "", "", ""
	case "ok", "runtime-error":
		var parts []string
		if c.Class == "ok" && o.err != nil {
			if rtErrRe.MatchString(o.Err) {
				return "runtime error on a program that must succeed: " + o.Err, "class:runtime-error", ""
			}
			return "rejected a program the language accepts: " + strings.TrimSpace(o.Log), "class:rejected", ""
		}
		if c.Class == "runtime-error" {
			switch {
			case o.err == nil:
				return "no error where a runtime error is required (" + c.Err + ")", "class:no-error", ""
			case !rtErrRe.MatchString(o.Err):
				return "not a runtime error: " + o.Err, "class:not-runtime", ""
			case !strings.HasSuffix(o.Err, ": "+c.Err) && !(strings.HasPrefix(c.Err, "child ") && strings.HasSuffix(o.Err, ": "+symName.Replace(c.Err))):
				// the property pins the error class, not its wording
				drift = fmt.Sprintf("runtime error text %q, specification %q", o.Err, c.Err)
			}
		}
		if o.Out != wantOut {
			parts = append(parts, "output")
		}
		if warns != c.Warn {
			parts = append(parts, "warnings")
		}
		got := o.res
		if got == nil {
			got = []bcl.Block{}
		}
		if !reflect.DeepEqual(got, toBlocks(c.Result)) {
			parts = append(parts, "result")
		}
		switch c.BKind {
		case "none":
			if o.bind != nil && c.Class == "ok" {
				parts = append(parts, "binding")
			}
		case "struct":
			sb, ok := o.bind.(bcl.StructBinding)
			if c.Class == "ok" && (!ok || !reflect.DeepEqual(sb.Value, toBlock(c.BBlocks[0]))) {
				parts = append(parts, "binding")
			}
		case "slice":
			sb, ok := o.bind.(bcl.SliceBinding)
			if c.Class == "ok" && (!ok || !reflect.DeepEqual(sb.Value, toBlocks(c.BBlocks))) {
				parts = append(parts, "binding")
			}
		}
		if len(parts) > 0 {
			return "differs in " + strings.Join(parts, ", "), strings.Join(parts, "+"), drift
		}
		return "", "", drift
	}
	return "unknown class " + c.Class, "harness", ""
}

func replayProg(args []string) int {
	o := parseOpts(args)
	s := newSummary("prog")
	eachCase(openIn(o), func(raw []byte) {
		var c progCase
		if err := json.Unmarshal(raw, &c); err != nil {
			s.Skipped++
			return
		}
		src := bytesOf(c.Src)
		if !s.note(src, c.NT && c.Class != "ood", raw) {
			return
		}
		s.Classes[c.Class]++
		if c.Class == "ood" {
			s.OOD++
			return
		}
		s.Judged++
		obs := interpretGuarded(src)
		if hw, hraw := heldChanged(); hw != "" && s.ShapeCounts["earlier-result-changed"] < 3 {
			s.bad(hw, "earlier-result-changed", hraw, map[string]string{"after_running": string(src)}, true)
		}
		holdResult(obs.res, obs.bind, raw)
		why, shape, drift := judgeProg(&c, obs)
		if drift != "" {
			s.drift("error-text", drift)
		}
		if why != "" {
			obs2 := interpretGuarded(src) // confirm in a fresh call
			why2, shape2, _ := judgeProg(&c, obs2)
			s.bad(why, shape, raw, obs, why2 != "" && shape2 == shape)
		} else if c.Class != "compile-error" {
			// the same program dumped and loaded back (the load is given the writers): same meaning, warnings on the log writer included
			if ol, ok := viaDumpLoad(src); ok {
				if wl, sl, _ := judgeProg(&c, ol); wl != "" {
					s.bad("after Dump and LoadProg: "+wl, "loaded:"+sl, raw, ol, true)
				}
			}
			// the same program executed a second time from the same Prog, and through InterpretFile from a reader that gives its
			// last bytes together with io.EOF: same meaning
			if ox, ok := viaReexec(src); ok {
				if wl, sl, _ := judgeProg(&c, ox); wl != "" {
					s.bad("second execution of the same Prog: "+wl, "reexec:"+sl, raw, ox, true)
				}
			}
			if wl, sl, _ := judgeProg(&c, viaFile(src)); wl != "" {
				s.bad("through InterpretFile (data together with EOF): "+wl, "file:"+sl, raw, nil, true)
			}
		}
	})
	return s.write(o)
}

func init() { register("replay-prog", replayProg) }
