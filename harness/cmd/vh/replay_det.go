package main

import (
	"bytes"
	"crypto/sha256"
	"encoding/hex"
	"encoding/json"
	"fmt"
	"io"
	"os"
	"reflect"
	"sort"
	"strconv"
	"strings"

	"github.com/wkhere/bcl"
)

// ---- C16: same input, same outcome. The specification chooses the inputs (bind cases whose outcome would depend on the key order
// under an order-sensitive implementation; programs incl. rejected ones with several diagnostics); the verdict is an equality between
// repeated runs of the real code (in one process here; across processes via the digests written with --digests).

type detCase struct {
	Fam   string `json:"fam"`
	Shape string `json:"shape"`
	N     int    `json:"n"`
	Src   []int  `json:"src"`
	Sens  bool   `json:"sens"`
	NT    bool   `json:"nt"`
}

func canonBlocks(bs []bcl.Block) string {
	var sb strings.Builder
	var wr func(b bcl.Block)
	wr = func(b bcl.Block) {
		fmt.Fprintf(&sb, "{%q %q", b.Type, b.Name)
		ks := make([]string, 0, len(b.Fields))
		for k := range b.Fields {
			ks = append(ks, k)
		}
		sort.Strings(ks)
		for _, k := range ks {
			fmt.Fprintf(&sb, " %q=", k)
			if c, ok := b.Fields[k].(bcl.Block); ok {
				wr(c)
			} else {
				fmt.Fprintf(&sb, "%T:%#v", b.Fields[k], b.Fields[k])
			}
		}
		sb.WriteString("}")
	}
	for _, b := range bs {
		wr(b)
	}
	return sb.String()
}

func canonBinding(b bcl.Binding) string {
	switch x := b.(type) {
	case nil:
		return "nil"
	case bcl.StructBinding:
		return "struct:" + canonBlocks([]bcl.Block{x.Value})
	case bcl.SliceBinding:
		return "slice:" + canonBlocks(x.Value)
	}
	return fmt.Sprintf("%T", b)
}

// progOutcome: everything observable of parse + dump + execute (twice on the same Prog) as one string
func progOutcome(src []byte) (s string, why string) {
	defer func() {
		if r := recover(); r != nil {
			s, why = "panic:"+fmt.Sprint(r), ""
		}
	}()
	var out, lg bytes.Buffer
	// the caller's buffer is its own again once Parse has returned: it is overwritten here, and the program must not notice
	buf := append([]byte{}, src...)
	p, err := bcl.Parse(buf, "det", bcl.OptOutput(&out), bcl.OptLogger(&lg))
	for i := range buf {
		buf[i] = 'x'
	}
	var sb strings.Builder
	fmt.Fprintf(&sb, "parse err=%v log=%q\n", err, lg.String())
	if err != nil {
		return sb.String(), ""
	}
	var d1 bytes.Buffer
	if e := p.Dump(&d1); e != nil {
		fmt.Fprintf(&sb, "dump err=%v\n", e)
		return sb.String(), ""
	}
	fmt.Fprintf(&sb, "dump=%x\n", d1.Bytes())
	if q, qerr := bcl.Parse(src, "det", bcl.OptOutput(io.Discard), bcl.OptLogger(io.Discard)); qerr == nil {
		var d0 bytes.Buffer
		q.Dump(&d0)
		if !bytes.Equal(d0.Bytes(), d1.Bytes()) {
			return sb.String(), "a Prog changes when the caller reuses the byte slice it had passed to Parse"
		}
	}
	res, bind, xerr := bcl.Execute(p)
	o1, l1 := out.String(), lg.String()
	fmt.Fprintf(&sb, "exec err=%v out=%q log=%q blocks=%s binding=%s\n", xerr, o1, l1, canonBlocks(res), canonBinding(bind))
	// executing must not alter the program
	var d2 bytes.Buffer
	p.Dump(&d2)
	if !bytes.Equal(d1.Bytes(), d2.Bytes()) {
		return sb.String(), "the dump of a Prog differs after executing it"
	}
	out.Reset()
	lg.Reset()
	res2, bind2, xerr2 := bcl.Execute(p)
	if fmt.Sprint(xerr) != fmt.Sprint(xerr2) || out.String() != o1 || canonBlocks(res) != canonBlocks(res2) || canonBinding(bind) != canonBinding(bind2) {
		return sb.String(), "executing the same Prog a second time gives a different outcome"
	}
	if lg.String() != l1 {
		return sb.String(), "executing the same Prog a second time logs different warnings"
	}
	// two executions with the trace and the statistics on: the same text both times, and the same outcome as without
	out.Reset()
	res3, bind3, xerr3 := bcl.Execute(p, bcl.OptTrace(true), bcl.OptStats(true))
	t1 := out.String()
	out.Reset()
	bcl.Execute(p, bcl.OptTrace(true), bcl.OptStats(true))
	if t1 != out.String() {
		return sb.String(), "two traced executions of the same Prog write different text"
	}
	if fmt.Sprint(xerr) != fmt.Sprint(xerr3) || canonBlocks(res) != canonBlocks(res3) || canonBinding(bind) != canonBinding(bind3) {
		return sb.String(), "a traced execution of the same Prog gives a different outcome"
	}
	fmt.Fprintf(&sb, "trace=%s\n", sha([]byte(t1)))
	return sb.String(), ""
}

func bindOutcome(c *bindCase, st reflect.Type, binding bcl.Binding) string {
	staleSalt++
	target, cur := makeTarget(c, st)
	before := fmt.Sprintf("%#v", cur())
	var err error
	pan := ""
	func() {
		defer func() {
			if r := recover(); r != nil {
				pan = fmt.Sprint(r)
			}
		}()
		err = bcl.Bind(target, binding)
	}()
	after := fmt.Sprintf("%#v", cur())
	if after == before {
		after = "unchanged" // what the target held before varies from call to call on purpose
	}
	return fmt.Sprintf("panic=%q err=%v target=%s", pan, err, after)
}

// disturb makes calls that have nothing to do with the case under test, with all introspection options on and writers of their
// own (C16: an outcome does not depend on calls made earlier in the same process)
func disturb() {
	defer func() { recover() }()
	var junkOut, junkLog bytes.Buffer
	opts := []bcl.Option{bcl.OptDisasm(true), bcl.OptTrace(true), bcl.OptStats(true), bcl.OptOutput(&junkOut), bcl.OptLogger(&junkLog)}
	bcl.Interpret([]byte("var d = 1\ndef dist \"urb\" { f = d + 1 }\nprint d\nbind dist -> struct\n"), opts...)
	var t struct{ F int }
	bcl.Unmarshal([]byte("def dist { f = 2 }\nbind dist -> struct\n"), &t, opts...)
	bcl.Parse([]byte("print )\n"), "disturb", opts...)
}

func replayDet(args []string) int {
	op := parseOpts(args)
	reps := op.int("reps", 12)
	s := newSummary("det")
	var dig *os.File
	if p := op.str("digests", ""); p != "" {
		f, err := os.Create(p)
		if err != nil {
			fmt.Fprintln(os.Stderr, err)
			return 2
		}
		defer f.Close()
		dig = f
	}
	var all [][]byte
	eachCase(openIn(op), func(raw []byte) { all = append(all, append([]byte{}, raw...)) })
	if op.str("reverse", "") != "" {
		// the same calls in the opposite order: an outcome must not depend on what was called before in the process
		for i, j := 0, len(all)-1; i < j; i, j = i+1, j-1 {
			all[i], all[j] = all[j], all[i]
		}
	}
	thin := op.int("thin", 1)
	thinSens := op.int("thinsens", 1)
	idx := 0
	handle := func(raw []byte) {
		idx++
		_ = idx
		var c detCase
		if err := json.Unmarshal(raw, &c); err != nil {
			s.Skipped++
			return
		}
		var first string
		var run func() (string, string)
		dkey := raw
		switch c.Fam {
		case "bind":
			// by content, so that every process thins alike: the order-insensitive bind cases one in `thin`, the sensitive ones
			// (two or more failing entries, or keys colliding on one field) one in `thinsens`
			if h := sha256.Sum256(raw); (!c.Sens && thin > 1 && int(h[0])%thin != 0) || (c.Sens && thinSens > 1 && int(h[1])%thinSens != 0) {
				return
			}
			var bc bindCase
			json.Unmarshal(raw, &bc)
			if !s.note(raw, c.Sens, raw) {
				return
			}
			st := descType(bc.Desc, string(bytesOf(bc.TName)))
			run = func() (string, string) {
				var binding bcl.Binding
				switch bc.BK {
				case "struct":
					binding = bcl.StructBinding{Value: bindBlock(bc.Blk)}
				case "slice":
					bs := make([]bcl.Block, bc.NBlk)
					for i := range bs {
						bs[i] = bindBlock(bc.Blk)
					}
					binding = bcl.SliceBinding{Value: bs}
				}
				return bindOutcome(&bc, st, binding), ""
			}
		case "pipe":
			// a reader script of the pipeline model: the outcome of ParseFile (error, program or none, diagnostics) is the same in
			// every run, whatever the number of processors
			var pc pipeCase
			json.Unmarshal(raw, &pc)
			key, _ := json.Marshal(pc.Script)
			if !s.note(key, len(pc.Script) >= 2, raw) {
				return
			}
			dkey = key // the model prints one line per outcome state of a script: the script identifies the case
			run = func() (string, string) {
				steps := make([]readStep, len(pc.Script))
				for i, it := range pc.Script {
					steps[i] = it.step()
				}
				var lg bytes.Buffer
				f := &scriptedFile{name: "det.bcl", steps: steps}
				var p *bcl.Prog
				var err error
				pan := ""
				func() {
					defer func() {
						if r := recover(); r != nil {
							pan = fmt.Sprint(r)
						}
					}()
					p, err = bcl.ParseFile(f, bcl.OptLogger(&lg), bcl.OptOutput(io.Discard))
				}()
				return fmt.Sprintf("panic=%q err=%v prog=%v log=%q", pan, err, p != nil, lg.String()), ""
			}
		default:
			src := bytesOf(c.Src)
			if c.Shape != "" {
				if c.N > 70000 {
					return
				}
				src = []byte(scaleSource(c.Shape, c.N))
			}
			if !s.note(append([]byte(c.Shape+strconv.Itoa(c.N)), src[:min(len(src), 2000)]...), c.NT, raw) {
				return
			}
			run = func() (string, string) { return progOutcome(src) }
		}
		s.Judged++
		s.Classes[c.Fam]++
		n := reps
		if c.Fam == "bind" && !c.Sens {
			n = 3 // the order-insensitive cases need fewer repetitions
		}
		for i := 0; i < n; i++ {
			o, why := run()
			if why != "" {
				s.bad(why, "execute-alters", raw, o, true)
				break
			}
			if i == 0 {
				first = o
				disturb() // an unrelated call with every option set and other writers: what follows must not notice it
				continue
			}
			if o != first {
				// confirm: the difference must show again within another batch of repetitions
				confirmed := false
				for j := 0; j < 4*reps && !confirmed; j++ {
					o2, _ := run()
					confirmed = o2 != first
				}
				s.bad("two runs of the same call differ", "nondeterministic:"+c.Fam, raw, map[string]string{"run1": first, "runN": o}, confirmed)
				break
			}
		}
		if dig != nil {
			h := sha256.Sum256(dkey)
			g := sha256.Sum256([]byte(first))
			fmt.Fprintf(dig, "%s %s\n", hex.EncodeToString(h[:8]), hex.EncodeToString(g[:12]))
		}
	}
	for _, raw := range all {
		handle(raw)
	}
	return s.write(op)
}

func init() { register("replay-det", replayDet) }
