package main

import (
	"bytes"
	"fmt"
	"io"
	"runtime"
	"strings"
	"sync"

	"github.com/wkhere/bcl"
)

// drive-dumpconc (C12 from the -race build, C14 from the plain one): N goroutines dump N different programs at the same time —
// small ones and ones far larger than any internal buffer — through writers that yield on every Write, and load the files back
// at the same time. Every file must be byte for byte what the same Dump gives alone, and every loaded program must dump to the
// same bytes again: writing a file is a function of the program, not of what other calls are doing.

type yieldWriter struct{ b bytes.Buffer }

func (w *yieldWriter) Write(p []byte) (int, error) {
	runtime.Gosched()
	return w.b.Write(p)
}

type yieldReader struct {
	b []byte
	n int
}

func (r *yieldReader) Read(p []byte) (int, error) {
	runtime.Gosched()
	if len(r.b) == 0 {
		return 0, io.EOF
	}
	k := r.n
	if k > len(p) {
		k = len(p)
	}
	if k > len(r.b) {
		k = len(r.b)
	}
	copy(p, r.b[:k])
	r.b = r.b[k:]
	return k, nil
}

func driveDumpConc(args []string) int {
	op := parseOpts(args)
	n := op.int("n", 8)
	rounds := op.int("rounds", 10)
	seed := int64(op.int("seed", 1))
	s := newSummary("drive-dumpconc")
	g := newProgen(seed)
	g.failRate = 0
	g.bigStr = true
	for round := 0; round < rounds; round++ {
		progs := make([]*bcl.Prog, 0, n)
		srcs := make([]string, 0, n)
		for len(progs) < n {
			var src string
			switch len(progs) % 4 {
			case 0: // far larger than the 4096-byte buffers: many statements with distinct constants
				var sb strings.Builder
				k := 600 + g.r.Intn(900)
				for i := 0; i < k; i++ {
					fmt.Fprintf(&sb, "print \"c%d-%d\" + %d\n", round, i, 1000+i*7+len(progs))
				}
				src = sb.String()
			case 1:
				src = scaleSource("vars-distinct", 239+g.r.Intn(60))
			default:
				src = g.program(4 + g.r.Intn(8))
			}
			p, err := bcl.Parse([]byte(src), fmt.Sprintf("p%d", len(progs)), bcl.OptLogger(io.Discard), bcl.OptOutput(io.Discard))
			if err != nil {
				continue
			}
			progs = append(progs, p)
			srcs = append(srcs, src)
		}
		alone := make([][]byte, n)
		for i, p := range progs {
			var b bytes.Buffer
			if err := p.Dump(&b); err != nil {
				s.bad("Dump alone failed: "+err.Error(), "dump-error", []byte(fmt.Sprintf("%q", trunc([]byte(srcs[i]), 200))), nil, true)
				return s.write(op)
			}
			alone[i] = b.Bytes()
		}
		together := make([][]byte, n)
		reDumped := make([][]byte, n)
		errs := make([]string, n)
		var wg sync.WaitGroup
		for i := range progs {
			wg.Add(1)
			go func(i int) {
				defer wg.Done()
				defer func() {
					if r := recover(); r != nil {
						errs[i] = fmt.Sprint("PANIC ", r)
					}
				}()
				w := &yieldWriter{}
				if err := progs[i].Dump(w); err != nil {
					errs[i] = "dump: " + err.Error()
					return
				}
				together[i] = w.b.Bytes()
				// and back, in reads of 1000 bytes, while the others are still writing / reading
				q, err := bcl.LoadProg(&yieldReader{b: append([]byte{}, alone[i]...), n: 1000}, fmt.Sprintf("p%d", i), bcl.OptLogger(io.Discard), bcl.OptOutput(io.Discard))
				if err != nil {
					errs[i] = "load: " + err.Error()
					return
				}
				var b bytes.Buffer
				if err := q.Dump(&b); err != nil {
					errs[i] = "re-dump: " + err.Error()
					return
				}
				reDumped[i] = b.Bytes()
			}(i)
		}
		wg.Wait()
		for i := range progs {
			s.Cases++
			s.Judged++
			s.Distinct++
			if len(alone[i]) > 4096 {
				s.Nontrivial++
			}
			raw := []byte(fmt.Sprintf("%q", trunc([]byte(srcs[i]), 200)))
			switch {
			case errs[i] != "":
				s.bad("a Dump / LoadProg running next to others failed: "+errs[i], "concurrent-dump-error", raw, errs[i], true)
			case !bytes.Equal(together[i], alone[i]):
				at := 0
				for at < len(together[i]) && at < len(alone[i]) && together[i][at] == alone[i][at] {
					at++
				}
				s.bad(fmt.Sprintf("the file written while other Dumps were running differs from the file the same Dump writes alone (first difference at offset %d of %d)", at, len(alone[i])), "concurrent-dump-differs", raw, at, true)
			case !bytes.Equal(reDumped[i], alone[i]):
				s.bad("a program loaded while other calls were running does not dump to the file it was loaded from", "concurrent-load-differs", raw, nil, true)
			}
		}
	}
	return s.write(op)
}

func init() { register("drive-dumpconc", driveDumpConc) }
