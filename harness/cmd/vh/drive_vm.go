package main

import (
	"bufio"
	"bytes"
	"encoding/json"
	"fmt"
	"math"
	"math/big"
	"os"
	"strings"
	"sync"

	"github.com/wkhere/bcl"
)

// typed value -> the uniformly shaped record of BclValues (t, n, d, s, e); anything outside the computable domain is "ood"
func tval(v any) map[string]any {
	mk := func(t string, n, d int, s []int) map[string]any {
		if s == nil {
			s = []int{}
		}
		return map[string]any{"t": t, "n": n, "d": d, "s": s, "e": ""}
	}
	ood := map[string]any{"t": "ood", "n": 0, "d": 1, "s": []int{}, "e": ""}
	switch x := v.(type) {
	case int:
		if x >= 1<<30 || x <= -(1<<30) {
			return ood
		}
		return mk("int", x, 1, nil)
	case float64:
		if math.IsInf(x, 0) || math.IsNaN(x) || (x == 0 && math.Signbit(x)) {
			return ood
		}
		r := new(big.Rat)
		r.SetFloat64(x)
		if !r.Num().IsInt64() || !r.Denom().IsInt64() || r.Denom().Int64() > 16384 || r.Num().Int64() >= 1<<30 || r.Num().Int64() <= -(1<<30) {
			return ood
		}
		return mk("float", int(r.Num().Int64()), int(r.Denom().Int64()), nil)
	case string:
		if len(x) > 400 {
			return ood
		}
		return mk("str", 0, 1, intsOf([]byte(x)))
	case bool:
		if x {
			return mk("bool", 1, 1, nil)
		}
		return mk("bool", 0, 1, nil)
	case nil:
		return mk("nil", 0, 1, nil)
	}
	return ood
}

// errClass maps a runtime error of the real VM to the class names of BclVM
func vmErrClass(err error) string {
	if err == nil {
		return ""
	}
	m := err.Error()
	switch {
	case strings.Contains(m, "not resolved as var or field"):
		return "unresolved"
	case strings.Contains(m, "duplicate at parent"):
		return "child-duplicate"
	case strings.Contains(m, "bind: no blocks"):
		return "bind-none"
	case strings.Contains(m, "but expected just 1"):
		return "bind-count"
	case strings.Contains(m, "stack overflow"):
		return "stack-overflow"
	case strings.Contains(m, "nested too deep"):
		return "block-overflow"
	case strings.Contains(m, "non-empty stack"):
		return "nonempty-stack"
	case strings.HasPrefix(m, "runtime error: "):
		return "op"
	}
	return "other"
}

var sinkMu sync.Mutex

// traceVM executes p with the VM hook on and returns the step events
func traceVM(p *bcl.Prog, opts ...bcl.Option) (steps []map[string]any, res []bcl.Block, bind bcl.Binding, err error, pan string) {
	sinkMu.Lock()
	defer sinkMu.Unlock()
	setSink(func(e bcl.VerifEvent) {
		if e.Kind != "step" {
			return
		}
		st := make([]any, len(e.V))
		for i, v := range e.V {
			st[i] = tval(v)
		}
		steps = append(steps, map[string]any{"e": "step", "pc": e.A, "btos": e.B, "stack": st})
	})
	defer func() {
		setSink(nil)
		if r := recover(); r != nil {
			pan = fmt.Sprint(r)
		}
	}()
	res, bind, err = bcl.Execute(p, opts...)
	return
}

func bindKind(b bcl.Binding) (string, int) {
	switch x := b.(type) {
	case bcl.StructBinding:
		return "struct", 1
	case bcl.SliceBinding:
		return "slice", len(x.Value)
	}
	return "none", 0
}

// drive-vm: random type-directed programs, executed by the real VM with the step hook on; the ndjson trace is judged by Trace_VM
func driveVM(args []string) int {
	op := parseOpts(args)
	n := op.int("n", 300)
	seed := int64(op.int("seed", 1))
	maxSteps := op.int("maxsteps", 400)
	outp := op.str("out", "trace.ndjson")
	f, err := os.Create(outp)
	if err != nil {
		fmt.Fprintln(os.Stderr, err)
		return 2
	}
	defer f.Close()
	w := bufio.NewWriterSize(f, 1<<20)
	defer w.Flush()
	enc := json.NewEncoder(w)
	s := newSummary("drive-vm")
	g := newProgen(seed)
	tries, events, completed := 0, 0, 0
	var fixed []string
	if sf := op.str("src", ""); sf != "" {
		b, err := os.ReadFile(sf)
		if err != nil {
			fmt.Fprintln(os.Stderr, err)
			return 2
		}
		fixed = []string{string(b)}
		n = 1
	}
	for s.Judged < n && tries < 50*n {
		tries++
		src := ""
		if fixed != nil {
			if tries > 1 {
				break
			}
			src = fixed[0]
		} else {
			src = g.program(2 + g.r.Intn(7))
		}
		var out, lg bytes.Buffer
		p, perr := bcl.Parse([]byte(src), "p", bcl.OptOutput(&out), bcl.OptLogger(&lg))
		if perr != nil {
			s.Classes["rejected"]++
			continue
		}
		var d bytes.Buffer
		if p.Dump(&d) != nil || d.Len() > 3000 {
			continue
		}
		steps, res, bind, xerr, pan := traceVM(p)
		if pan != "" {
			s.bad("the VM panicked: "+pan, "panic", []byte(fmt.Sprintf("%q", src)), pan, true)
			continue
		}
		if len(steps) > maxSteps {
			continue
		}
		s.Cases++
		s.Judged++
		s.Distinct++
		if xerr == nil {
			completed++
			s.Classes["ok"]++
		} else {
			s.Classes["runtime-error"]++
		}
		if len(steps) >= 10 {
			s.Nontrivial++
		}
		bk, bn := bindKind(bind)
		hdr := map[string]any{"e": "reset", "dump": intsOf(d.Bytes()), "err": vmErrClass(xerr), "out": intsOf(out.Bytes()),
			"nres": len(res), "warn": strings.Count(lg.String(), "WARNING: "), "bkind": bk, "bn": bn, "nsteps": len(steps), "src": src}
		enc.Encode(hdr)
		for _, st := range steps {
			enc.Encode(st)
		}
		events += 1 + len(steps)
		if len(s.Samples) < 3 {
			js, _ := json.Marshal(map[string]any{"src": src, "steps": len(steps), "err": vmErrClass(xerr)})
			s.Samples = append(s.Samples, js)
		}
	}
	s.Extra["events"] = events
	s.Extra["completed"] = completed
	return s.write(op)
}

func init() { register("drive-vm", driveVM) }
