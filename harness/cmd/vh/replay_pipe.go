package main

import (
	"bytes"
	"encoding/json"
	"errors"
	"fmt"
	"io"
	"math/rand"
	"runtime"
	"sort"
	"strings"
	"sync"
	"sync/atomic"
	"time"

	"github.com/wkhere/bcl"
)

// ---- the "pipe" family (C11): reader scripts with the set of contract outcomes the model allows

type pipeItem struct {
	N    int    `json:"n"`
	E    string `json:"e"`
	Toks int    `json:"toks"`
	Bad  bool   `json:"bad"`
	Fail bool   `json:"fail"`
}
type pipeCase struct {
	Fam    string     `json:"fam"`
	Script []pipeItem `json:"script"`
	Ret    string     `json:"ret"`
	Closes int        `json:"closes"`
	Reads  int        `json:"reads"`
	RAfter int        `json:"rafter"`
}

var errScripted = errors.New("scripted read error")

// a read error that wraps io.EOF is still a read error (only io.EOF itself means end of input)
var errWrapsEOF = fmt.Errorf("scripted read error at a short read: %w", io.EOF)
var useWrappedEOF int32

// the same payload classes with the lexical failure placed inside a block body (the parser is then inside blockStmt's loop)
var failInBlock int32

// the same payload classes with the line break in front of each statement: a chunk ends inside a line, so a diagnostic for its
// last statement is formatted while the line table does not yet know where that line ends
var nlFirst int32

func (it pipeItem) step() readStep {
	var st readStep
	if it.N == 1 {
		var sb strings.Builder
		for i := 0; i < it.Toks; i++ {
			switch {
			case atomic.LoadInt32(&nlFirst) == 1 && it.Bad && i == it.Toks-1:
				sb.WriteString("\nprint ) (") // 3 tokens (the parser reports ')' once it has seen the next one), the line still open when the chunk ends
			case atomic.LoadInt32(&nlFirst) == 1:
				sb.WriteString("\nprint(1)") // 4 tokens, each complete within the chunk
			case it.Bad && i == it.Toks-1:
				sb.WriteString("eval )\n")
			default:
				sb.WriteString("eval 1\n")
			}
		}
		if it.Toks == 0 {
			sb.WriteString(" \n")
		}
		if it.Fail {
			if atomic.LoadInt32(&failInBlock) == 1 {
				sb.WriteString("def b { f = 1\n$") // the lexical failure inside the body of a block
			} else {
				sb.WriteString("$")
			}
		}
		st.data = []byte(sb.String())
	}
	switch it.E {
	case "eof":
		st.err = io.EOF
	case "err":
		st.err = errScripted
		if atomic.LoadInt32(&useWrappedEOF) == 1 {
			st.err = errWrapsEOF
		}
	}
	return st
}

type pipeGroup struct {
	script  []pipeItem
	rets    map[string]bool
	maxRead int
	raw     []byte
}

type pipeObs struct {
	API     string `json:"api"`
	Ret     string `json:"ret"`
	Err     string `json:"err"`
	Hang    bool   `json:"hang,omitempty"`
	Panic   string `json:"panic,omitempty"`
	Closes  int    `json:"closes"`
	Reads   int    `json:"reads"`
	RAfter  int    `json:"reads_after_failure"`
	Leaked  string `json:"leaked,omitempty"`
	Allowed string `json:"allowed"`
}

func classifyRet(err error) string {
	switch {
	case err == nil:
		return "nil"
	case errors.Is(err, errScripted) || err == errWrapsEOF:
		return "readerr"
	}
	return "parseerr"
}

// bclGoroutines returns the stacks of goroutines (other than the caller's) that are inside package bcl
func bclGoroutines() string {
	buf := make([]byte, 1<<20)
	n := runtime.Stack(buf, true)
	var out []string
	for i, g := range strings.Split(string(buf[:n]), "\n\n") {
		if i == 0 {
			continue // the calling goroutine
		}
		if strings.Contains(g, "github.com/wkhere/bcl.") && !strings.Contains(g, "bclGoroutines") {
			out = append(out, g)
		}
	}
	return strings.Join(out, "\n\n")
}

// bclGoroutinesSince: the same, without the goroutines (by id) that were already there in `before` (leftovers of an earlier,
// already reported call must not be charged to the next one, nor make every later quiescence wait run to its deadline)
func bclGoroutineIDs() map[string]bool {
	ids := map[string]bool{}
	for _, g := range strings.Split(bclGoroutines(), "\n\n") {
		if f := strings.Fields(g); len(f) >= 2 && f[0] == "goroutine" {
			ids[f[1]] = true
		}
	}
	return ids
}

func bclGoroutinesSince(before map[string]bool) string {
	var out []string
	for _, g := range strings.Split(bclGoroutines(), "\n\n") {
		if f := strings.Fields(g); len(f) >= 2 && f[0] == "goroutine" && !before[f[1]] {
			out = append(out, g)
		}
	}
	return strings.Join(out, "\n\n")
}

var jitterOn int32

func installJitter(seed int64) {
	var mu sync.Mutex
	r := rand.New(rand.NewSource(seed))
	setSink(func(e bcl.VerifEvent) {
		if atomic.LoadInt32(&jitterOn) == 0 || e.Kind == "step" {
			return
		}
		mu.Lock()
		k := r.Intn(10)
		mu.Unlock()
		switch {
		case k < 4:
			runtime.Gosched()
		case k < 6:
			time.Sleep(time.Duration(20+k*15) * time.Microsecond)
		}
	})
}

func runPipe(api string, g *pipeGroup, wd time.Duration) (o pipeObs) {
	o.API = api
	steps := make([]readStep, len(g.script))
	failAt := -1
	for i, it := range g.script {
		steps[i] = it.step()
		if it.Fail && it.N == 1 && it.E != "err" && failAt < 0 {
			failAt = i
		}
	}
	var readsAfter int32
	f := &scriptedFile{name: "pipe.bcl", steps: steps}
	f.onRead = func(i int) {
		if failAt >= 0 && i > failAt {
			atomic.AddInt32(&readsAfter, 1)
		}
	}
	before := bclGoroutineIDs()
	type res struct {
		err error
		pan string
	}
	done := make(chan res, 1)
	go func() {
		var r res
		defer func() {
			if x := recover(); x != nil {
				r.pan = fmt.Sprint(x)
			}
			done <- r
		}()
		opts := []bcl.Option{bcl.OptLogger(io.Discard), bcl.OptOutput(io.Discard)}
		switch api {
		case "ParseFile":
			_, r.err = bcl.ParseFile(f, opts...)
		case "InterpretFile":
			_, _, r.err = bcl.InterpretFile(f, opts...)
		case "UnmarshalFile":
			var t struct{}
			r.err = bcl.UnmarshalFile(f, &t, opts...)
			if r.err != nil && r.err.Error() == "no binding" {
				r.err = nil // the scripted programs bind nothing: that is Bind's own verdict after a successful interpretation
			}
		case "UnmarshalFile/v":
			// a target that cannot be bound (passed by value): whatever the call returns, the input is read to its end and closed
			r.err = bcl.UnmarshalFile(f, struct{ X int }{}, opts...)
		}
	}()
	select {
	case r := <-done:
		o.Panic = r.pan
		o.Ret = classifyRet(r.err)
		if r.err != nil {
			o.Err = r.err.Error()
		}
	case <-time.After(wd):
		o.Hang = true
		return o
	}
	// quiescence: Close is deferred in the reader goroutine and may run just after the call returned
	deadline := time.Now().Add(1000 * time.Millisecond)
	for time.Now().Before(deadline) {
		if atomic.LoadInt32(&f.closes) >= 1 && bclGoroutinesSince(before) == "" {
			break
		}
		time.Sleep(200 * time.Microsecond)
	}
	time.Sleep(100 * time.Microsecond)
	o.Closes = int(atomic.LoadInt32(&f.closes))
	o.Reads = int(atomic.LoadInt32(&f.reads))
	o.RAfter = int(atomic.LoadInt32(&readsAfter))
	o.Leaked = bclGoroutinesSince(before)
	return o
}

func judgePipe(g *pipeGroup, o pipeObs) (why, shape string) {
	switch {
	case o.Hang:
		return o.API + " did not return within the watchdog", "hang"
	case o.Panic != "":
		return o.API + " panicked: " + o.Panic, "panic"
	case o.Closes != 1:
		return fmt.Sprintf("%s: Close called %d times", o.API, o.Closes), fmt.Sprintf("close-count-%d", o.Closes)
	case o.Leaked != "":
		return o.API + ": a goroutine started by the call is still alive after quiescence", "goroutine-leak"
	case o.API == "UnmarshalFile/v":
		return "", "" // the error of the unusable target is all the caller can expect; the contract above is what counts
	case !g.rets[o.Ret]:
		return fmt.Sprintf("%s returned %s (%s); the model allows %s", o.API, o.Ret, o.Err, o.Allowed), "return-class:" + o.Ret
	case o.RAfter > 3:
		return fmt.Sprintf("%s kept reading after a lexical failure: %d more reads", o.API, o.RAfter), "reads-after-failure"
	}
	return "", ""
}

func replayPipe(args []string) int {
	op := parseOpts(args)
	reps := op.int("reps", 6)
	stride := op.int("stride", 1)
	minReads := op.int("minreads", 0)
	seed := int64(op.int("seed", 1))
	s := newSummary("pipe")
	groups := map[string]*pipeGroup{}
	var order []string
	eachCase(openIn(op), func(raw []byte) {
		var c pipeCase
		if err := json.Unmarshal(raw, &c); err != nil {
			s.Skipped++
			return
		}
		s.Cases++
		key, _ := json.Marshal(c.Script)
		g := groups[string(key)]
		if g == nil {
			g = &pipeGroup{script: c.Script, rets: map[string]bool{}, raw: append([]byte{}, raw...)}
			groups[string(key)] = g
			order = append(order, string(key))
		}
		g.rets[c.Ret] = true
		if c.Reads > g.maxRead {
			g.maxRead = c.Reads
		}
	})
	sort.Strings(order)
	installJitter(seed)
	defer setSink(nil)
	hangs := 0
	for oi, k := range order {
		g := groups[k]
		if len(g.script) < minReads || (stride > 1 && len(g.script) >= 3 && oi%stride != int(seed)%stride) {
			continue // a seeded sample of the long scripts; the short ones are all run
		}
		s.Distinct++
		if len(g.script) >= 2 {
			s.Nontrivial++
		}
		if len(s.Samples) < 4 && len(g.script) >= 2 {
			s.Samples = append(s.Samples, g.raw)
		}
		allowed := []string{}
		for r := range g.rets {
			allowed = append(allowed, r)
		}
		sort.Strings(allowed)
		if hangs > 12 || s.MismatchCount >= 24 {
			s.Skipped++ // enough to report: every failing case costs a watchdog or a quiescence wait
			continue
		}
		for rep := 0; rep < reps; rep++ {
			api := []string{"ParseFile", "InterpretFile", "UnmarshalFile"}[rep%3]
			if rep%6 == 5 {
				api = "UnmarshalFile/v"
			}
			atomic.StoreInt32(&jitterOn, int32(rep%2))
			atomic.StoreInt32(&useWrappedEOF, int32((rep/3)%2))
			atomic.StoreInt32(&failInBlock, int32((rep/2)%2))
			o := runPipe(api, g, 3*time.Second)
			o.Allowed = strings.Join(allowed, "|")
			s.Judged++
			s.Classes[o.Ret]++
			if why, shape := judgePipe(g, o); why != "" {
				if o.Hang {
					hangs++
				}
				o2 := runPipe(api, g, 3*time.Second)
				o2.Allowed = o.Allowed
				why2, _ := judgePipe(g, o2)
				s.bad(why, shape, g.raw, o, why2 != "")
				break
			}
		}
	}
	var b bytes.Buffer
	fmt.Fprintf(&b, "%d scripts", len(order))
	s.Extra["scripts"] = len(order)
	return s.write(op)
}

func init() { register("replay-pipe", replayPipe) }
