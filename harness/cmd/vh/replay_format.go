package main

import (
	"bytes"
	"encoding/json"
	"fmt"
	"io"
	"strings"
	"time"

	"github.com/wkhere/bcl"
)

// ---- the "format" family (C09, C13, C14)

type formatCase struct {
	Fam    string `json:"fam"`
	Kind   string `json:"kind"`
	Hdr    []int  `json:"hdr"`
	Expect string `json:"expect"`
	N      int    `json:"n"`
	Pat    []int  `json:"pat"`
	Bytes  []int  `json:"bytes"`
	Src    []int  `json:"src"`
	NT     bool   `json:"nt"`
}

// patReader hands over its data in reads whose sizes cycle through pat (empty pat = as much as asked for)
type patReader struct {
	data []byte
	pat  []int
	i    int
}

func (r *patReader) Read(p []byte) (int, error) {
	if len(r.data) == 0 {
		return 0, io.EOF
	}
	n := len(p)
	if len(r.pat) > 0 {
		if k := r.pat[r.i%len(r.pat)]; k < n {
			n = k
		}
		r.i++
	}
	if n > len(r.data) {
		n = len(r.data)
	}
	copy(p, r.data[:n])
	r.data = r.data[n:]
	return n, nil
}

// sizesReader hands over its data in reads of exactly the given sizes (then the rest at once)
type sizesReader struct {
	data  []byte
	sizes []int
}

func (r *sizesReader) Read(p []byte) (int, error) {
	if len(r.data) == 0 {
		return 0, io.EOF
	}
	n := len(r.data)
	if len(r.sizes) > 0 {
		n, r.sizes = r.sizes[0], r.sizes[1:]
	}
	if n > len(p) {
		n = len(p)
	}
	if n > len(r.data) {
		n = len(r.data)
	}
	copy(p, r.data[:n])
	r.data = r.data[n:]
	return n, nil
}

type loadObs struct {
	Panic  string `json:"panic,omitempty"`
	Site   string `json:"site,omitempty"`
	Err    string `json:"err"`
	Disasm string `json:"disasm,omitempty"`
	Out    string `json:"out,omitempty"`
	Log    string `json:"log,omitempty"`
	XErr   string `json:"xerr,omitempty"`
	Res    string `json:"res,omitempty"`
	Redump string `json:"redump,omitempty"`
}

// loadAndRun: LoadProg under a delivery pattern, disassembly, execution, second dump — everything observable of a loaded program.
// The load runs under a watchdog: a loader that never comes back is reported (its goroutine cannot be stopped and is left behind).
func loadAndRun(dump []byte, pat []int, name string) (o loadObs) {
	done := make(chan loadObs, 1)
	go func() { done <- loadAndRun1(dump, pat, name) }()
	select {
	case o = <-done:
		return o
	case <-time.After(10 * time.Second):
		return loadObs{Panic: "no answer within 10 s: the loader hangs", Site: "hang"}
	}
}

func loadAndRun1(dump []byte, pat []int, name string) (o loadObs) {
	defer func() {
		if r := recover(); r != nil {
			o.Panic, o.Site = fmt.Sprint(r), panicSite()
		}
	}()
	var out, lg bytes.Buffer
	p, err := bcl.LoadProg(&patReader{data: append([]byte{}, dump...), pat: pat}, name, bcl.OptDisasm(true), bcl.OptOutput(&out), bcl.OptLogger(&lg))
	if err != nil {
		o.Err = err.Error()
		return o
	}
	o.Disasm = out.String()
	out.Reset()
	res, bind, xerr := bcl.Execute(p)
	o.Out, o.Log = out.String(), lg.String()
	if xerr != nil {
		o.XErr = xerr.Error()
	}
	o.Res = canonBlocks(res) + " / " + canonBinding(bind)
	var d2 bytes.Buffer
	if e := p.Dump(&d2); e != nil {
		o.Redump = "dump error: " + e.Error()
	} else {
		o.Redump = fmt.Sprintf("%x", d2.Bytes())
	}
	return o
}

// parseAndRun: the same observations for the program as parsed
func parseAndRun(src []byte, name string) (o loadObs, dump []byte) {
	defer func() {
		if r := recover(); r != nil {
			o.Panic, o.Site = fmt.Sprint(r), panicSite()
		}
	}()
	var out, lg bytes.Buffer
	p, err := bcl.Parse(src, name, bcl.OptDisasm(true), bcl.OptOutput(&out), bcl.OptLogger(&lg))
	if err != nil {
		o.Err = err.Error()
		return o, nil
	}
	o.Disasm = out.String()
	var d bytes.Buffer
	if e := p.Dump(&d); e != nil {
		o.Err = "dump: " + e.Error()
		return o, nil
	}
	dump = d.Bytes()
	out.Reset()
	res, bind, xerr := bcl.Execute(p)
	o.Out, o.Log = out.String(), lg.String()
	if xerr != nil {
		o.XErr = xerr.Error()
	}
	o.Res = canonBlocks(res) + " / " + canonBinding(bind)
	o.Redump = fmt.Sprintf("%x", dump)
	return o, dump
}

func sizeSource(kind string, n int) (src []byte, name string) {
	name = "in.bcl"
	a := strings.Repeat("a", n)
	switch kind {
	case "strconst":
		return []byte("print \"" + a + "\" + 1\nprint 2 + nil\n"), name
	case "rawstr":
		// a string constant that is not valid UTF-8 (strings are byte sequences): \xff, n letters, a lone \xe9
		return []byte("print \"\\xff" + a + "\\xe9\" + 1\nprint 2 + nil\n"), name
	case "strconst2":
		// two string constants: the second a little longer than the first (scratch buffers grown for one are reused for the next)
		var sb strings.Builder
		for _, k := range []int{7, 8, 9, 10, 11} {
			sb.WriteString("print \"" + a + "\" == \"" + a + strings.Repeat("b", k) + "\"\n")
		}
		return []byte(sb.String()), name
	case "ident":
		id := "v" + a
		return []byte("def " + id + " {\n " + id + " = 1\n print " + id + "\n}\nprint 1/0\n"), name
	case "name":
		return []byte("print 1\nprint nil + 1\n"), a
	case "noname":
		// an unnamed program (the loader is given another name: the dumped, empty one must win)
		return []byte("# " + a + "\nprint 1\nprint nil + 1\n"), ""
	case "lastlf":
		// the very last byte of the dump is the varint of the last newline offset n-1
		if n < 2 {
			n = 2
		}
		return []byte("#" + strings.Repeat(".", n-2) + "\n"), name
	case "blank":
		// nothing but n line feeds (n = 0: the empty source): the whole program is one RET whose position is the end of input
		return []byte(strings.Repeat("\n", n)), name
	case "code":
		// a code section of about n bytes (two per statement, all on one line: few line feeds, many positions), then a failing operation
		return []byte(strings.Repeat("print 1;", n/2) + "\nprint 2 + nil\n"), name
	case "lines":
		// n empty lines around a small program: far more line feeds than bytes of code
		return []byte(strings.Repeat("\n", n/2) + "print 1\nprint 2 + nil\n" + strings.Repeat("\n", n-n/2)), name
	case "offset":
		// a failing operation n bytes into the source: its position needs a 1..3 byte varint
		return []byte(strings.Repeat(" ", n) + "print 1\n\nprint 2 + nil\n"), name
	case "comment":
		return []byte("#" + a + "\nprint \"x\"\n# " + a + "\nprint 1 - \"s\"\n"), name
	}
	panic("unknown size kind " + kind)
}

var smallDump []byte

func replayFormat(args []string) int {
	op := parseOpts(args)
	cuts := op.str("cuts", "") != ""
	cutsOf := op.int("cutsof", 1) // the cuts of one case in `cutsof` only (by content): the quick tier's share of the large dumps
	seed := op.int("seed", 1)
	s := newSummary("format")
	if smallDump == nil {
		_, smallDump = parseAndRun([]byte("def a \"n\" { f = 1.5 }\nprint \"s\" + 2\n"), "small")
	}
	checkCuts := func(raw []byte, dump []byte) {
		for k := 0; k < len(dump); k++ {
			// every cut of a dump up to 6 kB; of longer ones the first and last 1500 bytes and every 61st byte between
			if len(dump) > 6000 && k > 1500 && k < len(dump)-1500 && k%61 != 0 {
				continue
			}
			o := loadAndRun(dump[:k], nil, "cut")
			s.Extra["cuts"] = intOf(s.Extra["cuts"]) + 1
			switch {
			case o.Panic != "":
				s.bad(fmt.Sprintf("LoadProg panicked on the %d-byte prefix of a %d-byte dump: %s", k, len(dump), o.Panic), "cut:panic:"+o.Site, raw, o, true)
				return
			case o.Err == "":
				s.bad(fmt.Sprintf("LoadProg accepted the %d-byte prefix of a %d-byte dump", k, len(dump)), "cut:accepted", raw, o, true)
				return
			}
		}
	}
	eachCase(openIn(op), func(raw []byte) {
		var c formatCase
		if err := json.Unmarshal(raw, &c); err != nil {
			s.Skipped++
			return
		}
		if !s.note(raw, c.NT, raw) {
			return
		}
		s.Judged++
		s.Classes[c.Kind]++
		switch c.Kind {
		case "header":
			d := append(bytesOf(c.Hdr), smallDump[4:]...)
			o := loadAndRun(d, nil, "hdr")
			switch {
			case o.Panic != "":
				s.bad("LoadProg panicked on a header: "+o.Panic, "header:panic", raw, o, true)
			case c.Expect == "error" && o.Err == "":
				s.bad("LoadProg accepted a file with a wrong magic or an unsupported version", "header:accepted", raw, o, true)
			case c.Expect == "ok" && o.Err != "":
				s.bad("LoadProg rejected a valid header: "+o.Err, "header:rejected", raw, o, true)
			}
		case "parts":
			// a specification-assembled file delivered under an explicit partition (pat = the cut offsets): must load and re-dump identically
			d := bytesOf(c.Bytes)
			var sizes []int
			prev := 0
			for _, cut := range c.Pat {
				sizes = append(sizes, cut-prev)
				prev = cut
			}
			sizes = append(sizes, len(d)-prev)
			pan, errs, same := "", "", false
			func() {
				defer func() {
					if r := recover(); r != nil {
						pan = fmt.Sprint(r)
					}
				}()
				p, err := bcl.LoadProg(&sizesReader{data: append([]byte{}, d...), sizes: sizes}, "parts", bcl.OptOutput(io.Discard), bcl.OptLogger(io.Discard))
				if err != nil {
					errs = err.Error()
					return
				}
				var b bytes.Buffer
				p.Dump(&b)
				same = bytes.Equal(b.Bytes(), d)
			}()
			switch {
			case pan != "":
				s.bad("LoadProg panicked under a partition of a valid file: "+pan, "parts:panic", raw, pan, true)
			case errs != "":
				s.bad("a valid file is rejected when delivered under this partition: "+errs, "parts:rejected", raw, errs, true)
			case !same:
				s.bad("the file loaded under this partition dumps differently", "parts:redump", raw, "", true)
			}
		case "bytes":
			// a file assembled by the specification's encoder: the real loader must take it and write the same bytes again
			d := bytesOf(c.Bytes)
			var err error
			var redump []byte
			pan := ""
			func() {
				defer func() {
					if r := recover(); r != nil {
						pan = fmt.Sprint(r)
					}
				}()
				var p *bcl.Prog
				p, err = bcl.LoadProg(bytes.NewReader(d), "spec", bcl.OptOutput(io.Discard), bcl.OptLogger(io.Discard))
				if err == nil {
					var b bytes.Buffer
					err = p.Dump(&b)
					redump = b.Bytes()
				}
			}()
			switch {
			case pan != "":
				s.bad("panic on a file assembled per the documented format: "+pan, "spec-bytes:panic", raw, pan, true)
			case err != nil:
				s.bad("file assembled per the documented format is rejected: "+err.Error(), "spec-bytes:rejected", raw, err.Error(), true)
			case len(redump) < 4 || !bytes.Equal(redump[4:], d[4:]) || !bytes.Equal(redump[:3], d[:3]) || redump[3] < d[3]:
				// (a file of minor version 0 may be written back as the current minor version)
				s.bad("dump of the loaded file differs from the file", "spec-bytes:redump", raw, fmt.Sprintf("%x", redump), true)
			}
			if cuts && pan == "" && err == nil {
				checkCuts(raw, d)
			}
		default:
			var src []byte
			name := "in.bcl"
			if len(c.Src) > 0 {
				src = bytesOf(c.Src)
			} else {
				src, name = sizeSource(c.Kind, c.N)
			}
			want, dump := parseAndRun(src, name)
			if want.Panic != "" {
				s.bad("Parse/Dump/Execute panicked: "+want.Panic, "dump:panic:"+want.Site, raw, want, true)
				return
			}
			if dump == nil {
				s.Classes["rejected"]++
				return
			}
			// the loader is told a different name: the name stored in the file is the program's name
			got := loadAndRun(dump, c.Pat, name+".loaded")
			if got != want {
				shape := "roundtrip"
				switch {
				case got.Panic != "":
					shape = "load:panic:" + got.Site
				case got.Err != "":
					shape = "load:rejected"
				case got.Redump != want.Redump:
					shape = "redump"
				}
				if len(c.Pat) > 0 && loadAndRun(dump, nil, name+".loaded") == want {
					shape += ":delivery"
				}
				s.bad("the loaded program differs from the parsed one", shape, raw, map[string]any{"parsed": trimObs(want), "loaded": trimObs(got)}, true)
				return
			}
			// the same file taken by the Load method of a Prog that already holds another program (parsed, richer in constants,
			// positions and lines): afterwards it is this program and nothing of the other
			if !cuts {
				if why := loadIntoUsed(dump, want); why != "" {
					s.bad("Load into a Prog that held another program: "+why, "load:used-prog", raw, why, true)
					return
				}
			}
			if cuts && thinKeep(raw, cutsOf, seed) {
				checkCuts(raw, dump)
			}
		}
	})
	return s.write(op)
}

const usedProgSrc = "var a = 11; var b = \"bb\"; var c = 2.5\ndef q \"n\" { f = a; g = b + 1; h = c * 2 }\n\n\nprint a\nprint b\nprint c / 0\nbind q -> struct\n"

func loadIntoUsed(dump []byte, want loadObs) (why string) {
	defer func() {
		if r := recover(); r != nil {
			why = "panic: " + fmt.Sprint(r)
		}
	}()
	var out, lg bytes.Buffer
	p, err := bcl.Parse([]byte(usedProgSrc), "used", bcl.OptOutput(&out), bcl.OptLogger(&lg))
	if err != nil {
		// the filler program must parse; if it does not, this stage has nothing to say
		p, err = bcl.Parse([]byte("var a = 11\nprint a\n"), "used", bcl.OptOutput(&out), bcl.OptLogger(&lg))
		if err != nil {
			return ""
		}
	}
	bcl.Execute(p)
	if err := p.Load(bytes.NewReader(dump)); err != nil {
		return "rejected: " + err.Error()
	}
	out.Reset()
	lg.Reset()
	res, bind, xerr := bcl.Execute(p)
	xe := ""
	if xerr != nil {
		xe = xerr.Error()
	}
	var d2 bytes.Buffer
	p.Dump(&d2)
	switch {
	case fmt.Sprintf("%x", d2.Bytes()) != want.Redump:
		return "it dumps to other bytes than the file"
	case out.String() != want.Out:
		return fmt.Sprintf("output %q, the program's is %q", trunc(out.Bytes(), 80), trunc([]byte(want.Out), 80))
	case xe != want.XErr:
		return fmt.Sprintf("error %q, the program's is %q", xe, want.XErr)
	case canonBlocks(res)+" / "+canonBinding(bind) != want.Res:
		return "blocks or binding differ"
	}
	return ""
}

func trimObs(o loadObs) loadObs {
	t := func(s string) string {
		if len(s) > 400 {
			return s[:200] + "…" + s[len(s)-150:]
		}
		return s
	}
	o.Disasm, o.Out, o.Redump, o.Res = t(o.Disasm), t(o.Out), t(o.Redump), t(o.Res)
	return o
}

func init() { register("replay-format", replayFormat) }
