package main

import (
	"bufio"
	"encoding/json"
	"fmt"
	"io"
	"math/rand"
	"os"
	"strings"
	"sync"
	"sync/atomic"
	"time"

	"github.com/wkhere/bcl"
)

// drive-lex: real ParseFile runs on short sources delivered in random small chunks (boundaries inside tokens, multi-byte characters,
// operators, escapes; zero-byte reads); records what the lexer goroutine did — chunk lengths received, the offset handed to the
// line table for each, the tokens emitted — for Trace_Lexer, which re-runs the L2 lexer machine on the same chunks.
func driveLex(args []string) int {
	op := parseOpts(args)
	n := op.int("n", 400)
	seed := int64(op.int("seed", 1))
	outp := op.str("out", "lexruns.ndjson")
	f, err := os.Create(outp)
	if err != nil {
		fmt.Fprintln(os.Stderr, err)
		return 2
	}
	defer f.Close()
	w := bufio.NewWriterSize(f, 1<<20)
	defer w.Flush()
	enc := json.NewEncoder(w)
	s := newSummary("drive-lex")
	g := newProgen(seed)
	g.maxDepth = 2
	r := rand.New(rand.NewSource(seed * 31))
	spice := []string{"é", " ", "\u0085", "€", "\"a\\\"b\"", "# c é\n", "\r\n", "<=", "->", "!=", "0x1F", "2.5e-1", "1a", "$", "\"unterminated", "1.", "!"}
	for i := 0; i < n; i++ {
		src := g.program(1 + g.r.Intn(3))
		for k := r.Intn(3); k > 0; k-- {
			p := r.Intn(len(src) + 1)
			src = src[:p] + " " + spice[r.Intn(len(spice))] + " " + src[p:]
		}
		if len(src) > 260 {
			src = src[:260]
		}
		// random chunking, mean size 1..12 bytes, with an occasional zero-byte read
		var steps []readStep
		var chunks [][]int
		b := []byte(src)
		m := 1 + r.Intn(12)
		for len(b) > 0 {
			k := 1 + r.Intn(2*m)
			if k > len(b) {
				k = len(b)
			}
			steps = append(steps, readStep{data: b[:k]})
			chunks = append(chunks, intsOf(b[:k]))
			b = b[k:]
			if r.Intn(9) == 0 {
				steps = append(steps, readStep{})
				chunks = append(chunks, []int{})
			}
		}
		var mu sync.Mutex
		var toks [][2]int
		recvs, lfs := []int{}, []int{}
		roles := map[int]string{}
		setSink(func(e bcl.VerifEvent) {
			if e.Kind == "step" {
				return
			}
			id := goid()
			mu.Lock()
			defer mu.Unlock()
			if e.G != "" {
				roles[id] = e.G
			}
			switch {
			case e.G == "L" && e.Kind == "tok":
				toks = append(toks, [2]int{e.A, e.B})
			case e.G == "L" && e.Kind == "recv" && e.B == 1:
				recvs = append(recvs, e.A)
			case e.Kind == "lfswrite" && roles[id] == "L":
				lfs = append(lfs, e.A)
			}
		})
		file := &scriptedFile{name: "l.bcl", steps: steps}
		done := make(chan struct{})
		go func() {
			defer func() { recover(); close(done) }()
			bcl.ParseFile(file, bcl.OptLogger(io.Discard), bcl.OptOutput(io.Discard))
		}()
		select {
		case <-done:
		case <-time.After(5 * time.Second):
			setSink(nil)
			s.bad("ParseFile did not return", "hang", []byte(fmt.Sprintf("%q", src)), src, true)
			continue
		}
		deadline := time.Now().Add(time.Second)
		for time.Now().Before(deadline) && (atomic.LoadInt32(&file.closes) < 1 || bclGoroutines() != "") {
			time.Sleep(100 * time.Microsecond)
		}
		setSink(nil)
		mu.Lock()
		if toks == nil {
			toks = [][2]int{}
		}
		enc.Encode(map[string]any{"chunks": chunks, "toks": toks, "recvs": recvs, "lfs": lfs, "src": src})
		mu.Unlock()
		s.Cases++
		s.Judged++
		s.Distinct++
		if len(chunks) >= 3 {
			s.Nontrivial++
		}
		if len(s.Samples) < 3 {
			js, _ := json.Marshal(map[string]any{"src": src, "chunks": len(chunks), "tokens": len(toks)})
			s.Samples = append(s.Samples, js)
		}
		_ = strings.TrimSpace
	}
	return s.write(op)
}

func init() { register("drive-lex", driveLex) }
