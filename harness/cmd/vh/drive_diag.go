package main

import (
	"bufio"
	"bytes"
	"encoding/json"
	"fmt"
	"os"
	"strconv"
	"strings"

	"github.com/wkhere/bcl"
)

// drive-diag: parses every distinct source of the input cases with the real parser and writes, for each rejected one, the source and
// the location data of every diagnostic line for Trace_Pos.
func driveDiag(args []string) int {
	op := parseOpts(args)
	outp := op.str("out", "diags.ndjson")
	max := op.int("max", 3000)
	stride := op.int("stride", 1)
	seed := op.int("seed", 1)
	f, err := os.Create(outp)
	if err != nil {
		fmt.Fprintln(os.Stderr, err)
		return 2
	}
	defer f.Close()
	w := bufio.NewWriterSize(f, 1<<20)
	defer w.Flush()
	enc := json.NewEncoder(w)
	s := newSummary("drive-diag")
	n, seen, nd := 0, 0, 0
	eachCase(openIn(op), func(raw []byte) {
		var c struct {
			Src []int `json:"src"`
		}
		if json.Unmarshal(raw, &c) != nil || len(c.Src) == 0 || len(c.Src) > 400 {
			return
		}
		src := bytesOf(c.Src)
		if !s.note(src, true, raw) || n >= max {
			return
		}
		var lg bytes.Buffer
		var perr error
		func() {
			defer func() { recover() }()
			_, perr = bcl.Parse(src, "d", bcl.OptLogger(&lg), bcl.OptOutput(&bytes.Buffer{}))
		}()
		if perr == nil || lg.Len() == 0 {
			return
		}
		seen++
		if !thinKeep(src, stride, seed) {
			return
		}
		var diags []map[string]any
		for _, l := range strings.Split(strings.TrimRight(lg.String(), "\n"), "\n") {
			m := reDiag.FindStringSubmatch(l)
			if m == nil {
				s.bad("diagnostic line without a location: "+l, "diag:form", raw, l, true)
				return
			}
			li, _ := strconv.Atoi(m[1])
			co, _ := strconv.Atoi(m[2])
			d := map[string]any{"l": li, "c": co, "atend": m[3] == " at end", "hastok": strings.HasPrefix(m[3], " at '"), "tok": []int{}}
			if strings.HasPrefix(m[3], " at '") {
				d["tok"] = intsOf([]byte(m[4]))
			}
			diags = append(diags, d)
		}
		enc.Encode(map[string]any{"src": intsOf(src), "diags": diags, "text": string(src)})
		n++
		nd += len(diags)
		s.Judged++
	})
	s.Extra["sources"] = n
	s.Extra["diagnostics"] = nd
	return s.write(op)
}

func init() { register("drive-diag", driveDiag) }
