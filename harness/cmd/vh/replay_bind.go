package main

import (
	"bytes"
	"encoding/json"
	"fmt"
	"math"
	"reflect"
	"strconv"
	"strings"

	"github.com/wkhere/bcl"
)

// ---- the "bind" family (C05, C15, C16): a type descriptor, a block, a target kind and the required outcome

type bvalJ struct {
	T    string `json:"t"`
	N    int    `json:"n"`
	D    int    `json:"d"`
	S    []int  `json:"s"`
	Atom string `json:"atom"`
}
type bfldJ struct {
	Go   []int     `json:"go"`
	Tag  []int     `json:"tag"`
	Kind string    `json:"kind"`
	Sub  [][]bfldJ `json:"sub"`
}
type bentJ struct {
	K    []int   `json:"k"`
	Kind string  `json:"kind"`
	V    bvalJ   `json:"v"`
	B    []bblkJ `json:"b"`
}
type bblkJ struct {
	Type []int   `json:"type"`
	Name []int   `json:"name"`
	Ents []bentJ `json:"ents"`
}
type btvJ struct {
	V   bvalJ    `json:"v"`
	Sub [][]btvJ `json:"sub"`
}
type bindCase struct {
	Fam    string  `json:"fam"`
	TK     string  `json:"tk"`
	BK     string  `json:"bk"`
	NBlk   int     `json:"nblk"`
	TName  []int   `json:"tname"`
	Desc   []bfldJ `json:"desc"`
	Blk    bblkJ   `json:"blk"`
	Expect string  `json:"expect"`
	Tv     []btvJ  `json:"tv"`
	Wr     []bwrJ  `json:"wr"`
	Tagged []struct {
		I int   `json:"i"`
		V bvalJ `json:"v"`
	} `json:"tagged"`
	NT bool `json:"nt"`
}

// which fields a successful copy writes (tree parallel to the descriptor)
type bwrJ struct {
	W   bool     `json:"w"`
	Sub [][]bwrJ `json:"sub"`
}

// stale fills every settable field with a value no case assigns
func stale(v reflect.Value) {
	for j := 0; j < v.NumField(); j++ {
		f := v.Field(j)
		if !f.CanSet() {
			continue
		}
		switch f.Kind() {
		case reflect.Int:
			f.SetInt(70)
		case reflect.String:
			f.SetString("prev")
		case reflect.Bool:
			f.SetBool(true)
		case reflect.Float64:
			f.SetFloat(1.25)
		case reflect.Interface:
			f.Set(reflect.ValueOf("prevany"))
		case reflect.Struct:
			stale(f)
		}
	}
}

// writtenDiffer compares only what the specification says a copy writes
func writtenDiffer(got, want reflect.Value, wr []bwrJ, path string) string {
	for i := range wr {
		if i >= got.NumField() {
			break
		}
		name := path + got.Type().Field(i).Name
		if wr[i].W && !reflect.DeepEqual(got.Field(i).Interface(), want.Field(i).Interface()) {
			return fmt.Sprintf("field %s of a reused target is %#v after the copy, the block has %#v", name, got.Field(i).Interface(), want.Field(i).Interface())
		}
		if len(wr[i].Sub) == 1 && got.Field(i).Kind() == reflect.Struct {
			if d := writtenDiffer(got.Field(i), want.Field(i), wr[i].Sub[0], name+"."); d != "" {
				return d
			}
		}
	}
	return ""
}

// declared types for the type-name rule (reflect.StructOf can only make anonymous types); their shape is re-checked against
// the descriptor the specification sends
type T struct {
	Name string
	X    int
}
type FooBar struct{ X int }
type Srv struct {
	Name string
	X    string
}

// two declared types with the same name (and therefore the same reflect.Type.String()) but different tags
func confTagged() reflect.Type {
	type Conf struct {
		Port   int `bcl:"listen"`
		Listen int
	}
	return reflect.TypeOf(Conf{})
}

func confPlain() reflect.Type {
	type Conf struct {
		Port   int
		Listen int
	}
	return reflect.TypeOf(Conf{})
}

var catalogue = map[string]reflect.Type{
	"T": reflect.TypeOf(T{}), "FooBar": reflect.TypeOf(FooBar{}), "Srv": reflect.TypeOf(Srv{}),
}

func goVal(v bvalJ) any {
	if v.Atom != "" {
		switch v.Atom {
		case "maxint":
			return math.MaxInt64
		case "maxfloat":
			return math.MaxFloat64
		case "minint":
			return math.MinInt64 + 1 // (the literal of MinInt64 itself cannot be written: its magnitude overflows)
		case "tinyfloat":
			return 5e-324
		}
		panic("unknown atom " + v.Atom)
	}
	switch v.T {
	case "int":
		return v.N
	case "float":
		return float64(v.N) / float64(v.D)
	case "str":
		return string(bytesOf(v.S))
	case "bool":
		return v.N == 1
	case "nil":
		return nil
	}
	panic("bad value kind " + v.T)
}

// defined types whose underlying kind equals a BCL value kind: a plain int is not assignable to them (no coercion)
type (
	Level   int
	Mode    string
	Ratio   float64
	Enabled bool
)

func kindType(f bfldJ) reflect.Type {
	switch f.Kind {
	case "defint":
		return reflect.TypeOf(Level(0))
	case "defstring":
		return reflect.TypeOf(Mode(""))
	case "deffloat":
		return reflect.TypeOf(Ratio(0))
	case "defbool":
		return reflect.TypeOf(Enabled(false))
	case "int":
		return reflect.TypeOf(0)
	case "float":
		return reflect.TypeOf(0.0)
	case "string":
		return reflect.TypeOf("")
	case "bool":
		return reflect.TypeOf(false)
	case "any":
		return reflect.TypeOf((*any)(nil)).Elem()
	case "struct":
		return descType(f.Sub[0], "")
	case "ptrint":
		return reflect.TypeOf((*int)(nil))
	case "sliceint":
		return reflect.TypeOf([]int(nil))
	case "mapsi":
		return reflect.TypeOf(map[string]int(nil))
	case "arrint":
		return reflect.TypeOf([2]int{})
	case "ptrstruct":
		return reflect.TypeOf((*struct{ X int })(nil))
	case "embedded":
		return reflect.TypeOf(struct{ X int }{})
	case "embeddedptr":
		return reflect.TypeOf((*struct{ X int })(nil))
	}
	panic("bad field kind " + f.Kind)
}

func descType(fs []bfldJ, tname string) reflect.Type {
	if tname == "Conf" {
		if len(fs) > 0 && len(fs[0].Tag) > 0 {
			return confTagged()
		}
		return confPlain()
	}
	if tname != "" {
		t, ok := catalogue[tname]
		if !ok {
			panic("no catalogue type " + tname)
		}
		if t.NumField() != len(fs) {
			panic("catalogue type " + tname + " does not match the descriptor")
		}
		for i, f := range fs {
			if t.Field(i).Name != string(bytesOf(f.Go)) || t.Field(i).Type != kindType(f) {
				panic("catalogue type " + tname + " does not match the descriptor")
			}
		}
		return t
	}
	var sf []reflect.StructField
	for _, f := range fs {
		name := string(bytesOf(f.Go))
		x := reflect.StructField{Name: name, Type: kindType(f)}
		if len(f.Tag) > 0 {
			x.Tag = reflect.StructTag(`bcl:"` + string(bytesOf(f.Tag)) + `"`)
		}
		if c := name[0]; c >= 'a' && c <= 'z' {
			x.PkgPath = "main"
		}
		if f.Kind == "embedded" || f.Kind == "embeddedptr" {
			x.Anonymous = true
		}
		sf = append(sf, x)
	}
	return reflect.StructOf(sf)
}

func bindBlock(b bblkJ) bcl.Block {
	f := map[string]any{}
	for _, e := range b.Ents {
		if e.Kind == "blk" {
			f[string(bytesOf(e.K))] = bindBlock(e.B[0])
		} else {
			f[string(bytesOf(e.K))] = goVal(e.V)
		}
	}
	return bcl.Block{Type: string(bytesOf(b.Type)), Name: string(bytesOf(b.Name)), Fields: f}
}

// wantStruct builds the struct value the specification expects
func wantStruct(t reflect.Type, fs []bfldJ, tv []btvJ) reflect.Value {
	v := reflect.New(t).Elem()
	for i, f := range fs {
		if !t.Field(i).IsExported() {
			continue
		}
		switch f.Kind {
		case "struct":
			v.Field(i).Set(wantStruct(t.Field(i).Type, f.Sub[0], tv[i].Sub[0]))
		case "int", "float", "string", "bool", "any":
			if x := goVal(tv[i].V); x != nil {
				v.Field(i).Set(reflect.ValueOf(x))
			}
		}
	}
	return v
}

func litOf(x any) string {
	switch v := x.(type) {
	case int:
		if v < 0 {
			return "-" + strconv.Itoa(-v)
		}
		return strconv.Itoa(v)
	case float64:
		s := strconv.FormatFloat(math.Abs(v), 'g', -1, 64)
		if !strings.ContainsAny(s, ".e") {
			s += ".0"
		}
		if i := strings.IndexByte(s, 'e'); i >= 0 && !strings.Contains(s[:i], ".") {
			// fine: digits 'e' exponent is a float literal
		}
		if v < 0 || (v == 0 && math.Signbit(v)) {
			return "-" + s
		}
		return s
	case string:
		return strconv.Quote(v)
	case bool:
		return strconv.FormatBool(v)
	case nil:
		return "nil"
	}
	panic(fmt.Sprintf("cannot render %T", x))
}

func renderBlock(sb *strings.Builder, b bblkJ, indent string) {
	sb.WriteString(indent + "def " + string(bytesOf(b.Type)))
	if len(b.Name) > 0 {
		sb.WriteString(" " + strconv.Quote(string(bytesOf(b.Name))))
	}
	sb.WriteString(" {\n")
	for _, e := range b.Ents {
		if e.Kind == "blk" {
			renderBlock(sb, e.B[0], indent+"  ")
		} else {
			sb.WriteString(indent + "  " + string(bytesOf(e.K)) + " = " + litOf(goVal(e.V)) + "\n")
		}
	}
	sb.WriteString(indent + "}\n")
}

type bindObs struct {
	Path   string `json:"path"`
	Panic  string `json:"panic,omitempty"`
	Site   string `json:"site,omitempty"`
	Err    string `json:"err"`
	Target string `json:"target"`
	Text   string `json:"text,omitempty"`
}

// makeTarget returns (target argument for Bind, function giving the current value for comparison / snapshot)
// staleSalt varies what a slice target holds before the call (replay-det changes it between repetitions: the outcome of a Bind must
// not depend on what earlier calls left in the target's backing array)
var staleSalt int

func makeTarget(c *bindCase, st reflect.Type) (any, func() any) {
	none := func() any { return nil }
	switch c.TK {
	case "ptr-struct":
		p := reflect.New(st)
		return p.Interface(), func() any { return p.Elem().Interface() }
	case "ptr-slice":
		sl := reflect.MakeSlice(reflect.SliceOf(st), 2, 4) // two previous, non-zero elements and spare capacity
		for i := 0; i < 2; i++ {
			for j := 0; j < st.NumField(); j++ {
				f := sl.Index(i).Field(j)
				if !f.CanSet() {
					continue
				}
				switch f.Kind() {
				case reflect.Int:
					f.SetInt(int64(70 + i + staleSalt))
				case reflect.String:
					f.SetString("prev" + strings.Repeat("!", staleSalt%3))
				case reflect.Bool:
					f.SetBool(true)
				case reflect.Float64:
					f.SetFloat(1.25)
				}
			}
		}
		p := reflect.New(sl.Type())
		p.Elem().Set(sl)
		return p.Interface(), func() any { return p.Elem().Interface() }
	case "nil":
		return nil, none
	case "struct":
		return reflect.New(st).Elem().Interface(), none
	case "nilptr-struct":
		return reflect.Zero(reflect.PointerTo(st)).Interface(), none
	case "nilptr-slice":
		return reflect.Zero(reflect.PointerTo(reflect.SliceOf(st))).Interface(), none
	case "ptr-int":
		return new(int), none
	case "ptr-string":
		return new(string), none
	case "ptr-map":
		m := map[string]int{}
		return &m, none
	case "ptr-slice-int":
		s := []int{1, 2}
		return &s, func() any { return append([]int{}, s...) }
	case "ptr-slice-ptr":
		p := reflect.New(reflect.SliceOf(reflect.PointerTo(st)))
		return p.Interface(), none
	case "ptr-ptr-struct":
		p := reflect.New(reflect.PointerTo(st))
		return p.Interface(), none
	case "slice":
		return reflect.MakeSlice(reflect.SliceOf(st), 1, 1).Interface(), none
	case "ptr-array":
		p := reflect.New(reflect.ArrayOf(2, st))
		return p.Interface(), none
	case "ptr-iface":
		var a any
		return &a, none
	case "ptr-func":
		var f func()
		return &f, none
	case "ptr-chan":
		var ch chan int
		return &ch, none
	}
	panic("unknown target kind " + c.TK)
}

func judgeBind(c *bindCase, st reflect.Type, path string, run func(target any) error) (why, shape string, o bindObs) {
	o.Path = path
	target, cur := makeTarget(c, st)
	before := fmt.Sprintf("%#v", cur()) // a rendering, not the value: a slice value would alias the backing array Bind may scribble on
	var err error
	func() {
		defer func() {
			if r := recover(); r != nil {
				o.Panic, o.Site = fmt.Sprint(r), panicSite()
			}
		}()
		err = run(target)
	}()
	if err != nil {
		o.Err = err.Error()
	}
	after := cur()
	o.Target = fmt.Sprintf("%+v", after)
	if o.Panic != "" {
		return "panic: " + o.Panic, "panic:" + o.Site, o
	}
	switch c.Expect {
	case "error":
		if err == nil {
			return "returned nil although a block field (or the name) cannot be stored unchanged / the target is unusable", "nil-for-error", o
		}
		if c.TK == "ptr-slice" || c.TK == "ptr-slice-int" {
			if now := fmt.Sprintf("%#v", after); now != before {
				return "slice target changed although Bind returned an error: before " + before + ", after " + now, "slice-changed-on-error", o
			}
		}
	case "any":
		// the outcome is open, but a success must have put every entry whose key is a field's tag into that field
		if err == nil && c.TK == "ptr-struct" {
			got := reflect.ValueOf(after)
			for _, tg := range c.Tagged {
				if tg.I >= 1 && tg.I <= got.NumField() && got.Field(tg.I-1).CanInterface() {
					if want := goVal(tg.V); !reflect.DeepEqual(got.Field(tg.I-1).Interface(), want) {
						return fmt.Sprintf("Bind returned nil but the entry whose key is the tag of field %s is not there: field holds %#v, the block has %#v (target %+v)",
							got.Type().Field(tg.I-1).Name, got.Field(tg.I-1).Interface(), want, after), "nil-for-error", o
					}
				}
			}
		}
	case "nil":
		if err != nil {
			return "error for a storable block: " + o.Err, "error-for-nil", o
		}
		switch c.TK {
		case "ptr-struct":
			want := wantStruct(st, c.Desc, c.Tv).Interface()
			if !reflect.DeepEqual(after, want) {
				return fmt.Sprintf("target %+v, specification %+v", after, want), "target-differs", o
			}
			// the same copy into a target that already holds other values: what the copy writes must arrive all the same
			if len(c.Wr) > 0 {
				p := reflect.New(st)
				stale(p.Elem())
				var err2 error
				func() {
					defer func() {
						if r := recover(); r != nil {
							o.Panic, o.Site = fmt.Sprint(r), panicSite()
						}
					}()
					err2 = run(p.Interface())
				}()
				if o.Panic != "" {
					return "panic with a reused target: " + o.Panic, "panic:" + o.Site, o
				}
				if err2 != nil {
					o.Err = err2.Error()
					return "error for a storable block when the target is reused: " + o.Err, "error-for-nil", o
				}
				if d := writtenDiffer(p.Elem(), reflect.ValueOf(want), c.Wr, ""); d != "" {
					o.Target = fmt.Sprintf("%+v", p.Elem().Interface())
					return d, "reused-target-differs", o
				}
			}
		case "ptr-slice":
			want := reflect.MakeSlice(reflect.SliceOf(st), c.NBlk, c.NBlk)
			for i := 0; i < c.NBlk; i++ {
				want.Index(i).Set(wantStruct(st, c.Desc, c.Tv))
			}
			if !reflect.DeepEqual(after, want.Interface()) {
				return fmt.Sprintf("slice target %+v, specification %+v", after, want.Interface()), "target-differs", o
			}
		}
	}
	return "", "", o
}

// SrvBig is the element type of the "bindbig" cases
type SrvBig struct {
	Name string
	Port int
	Host string `bcl:"host_name"`
	On   bool
	Load float64
}

// bindBig: N blocks `def srv "n<i>" { port = 1000+i; host_name = "h<i>"; on = <i even>; load = i + 0.5 }` bound to a slice (all) or a
// struct (last); the expected value is known in closed form
func bindBig(n int, bk string) (why string, obs any) {
	var sb strings.Builder
	want := make([]SrvBig, n)
	for i := 0; i < n; i++ {
		fmt.Fprintf(&sb, "def srv_big \"n%d\" {\n port = %d\n host_name = \"h%d\"\n on = %v\n load = %d.5\n}\n", i, 1000+i, i, i%2 == 0, i)
		want[i] = SrvBig{fmt.Sprintf("n%d", i), 1000 + i, fmt.Sprintf("h%d", i), i%2 == 0, float64(i) + 0.5}
	}
	var err error
	var got any
	pan := ""
	func() {
		defer func() {
			if r := recover(); r != nil {
				pan = fmt.Sprint(r)
			}
		}()
		if bk == "slice" {
			sb.WriteString("bind srv_big:all -> slice\n")
			t := []SrvBig{{Name: "stale"}}
			err = bcl.Unmarshal([]byte(sb.String()), &t, bcl.OptLogger(&bytes.Buffer{}), bcl.OptOutput(&bytes.Buffer{}))
			got = t
			if pan == "" && err == nil && !reflect.DeepEqual(t, want) {
				why = fmt.Sprintf("slice of %d blocks: the unmarshalled value differs from what was written", n)
			}
		} else {
			sb.WriteString("bind srv_big:last -> struct\n")
			var t SrvBig
			err = bcl.Unmarshal([]byte(sb.String()), &t, bcl.OptLogger(&bytes.Buffer{}), bcl.OptOutput(&bytes.Buffer{}))
			got = t
			if pan == "" && err == nil && t != want[n-1] {
				why = fmt.Sprintf("last of %d blocks: got %+v, written %+v", n, t, want[n-1])
			}
		}
	}()
	switch {
	case pan != "":
		return "panic: " + pan, pan
	case err != nil:
		return fmt.Sprintf("%d blocks: error %v", n, err), err.Error()
	}
	if why != "" {
		s := fmt.Sprintf("%+v", got)
		if len(s) > 600 {
			s = s[:600] + "…"
		}
		return why, s
	}
	return "", nil
}

func replayBind(args []string) int {
	op := parseOpts(args)
	s := newSummary("bind")
	// which mismatch shapes belong to the property being checked (C05: round trip; C15: totality / no silent drop)
	only := op.str("only", "")
	mine := func(shape string) bool {
		switch only {
		case "c05":
			return shape == "error-for-nil" || shape == "target-differs" || shape == "reused-target-differs"
		case "c15":
			// (a value stored in a field other than the corresponding one is "nil without having stored it" too)
			return strings.HasPrefix(shape, "panic:") || shape == "nil-for-error" || shape == "slice-changed-on-error" || shape == "target-differs"
		}
		return true
	}
	eachCase(openIn(op), func(raw []byte) {
		var c bindCase
		if err := json.Unmarshal(raw, &c); err != nil {
			s.Skipped++
			return
		}
		if !s.note(raw, c.NT, raw) {
			return
		}
		if c.Fam == "bindbig" {
			var b struct {
				N  int    `json:"n"`
				BK string `json:"bk"`
			}
			json.Unmarshal(raw, &b)
			s.Judged++
			s.Classes["big"]++
			if why, obs := bindBig(b.N, b.BK); why != "" && mine("target-differs") {
				s.bad(why, "big:"+b.BK, raw, obs, true)
			}
			return
		}
		s.Classes[c.Expect]++
		s.Judged++
		st := descType(c.Desc, string(bytesOf(c.TName)))
		blk := bindBlock(c.Blk)
		var binding bcl.Binding
		switch c.BK {
		case "struct":
			binding = bcl.StructBinding{Value: blk}
		case "slice":
			bs := make([]bcl.Block, c.NBlk)
			for i := range bs {
				bs[i] = bindBlock(c.Blk)
			}
			binding = bcl.SliceBinding{Value: bs}
		}
		direct := func(target any) error { return bcl.Bind(target, binding) }
		if why, shape, obs := judgeBind(&c, st, "Bind", direct); why != "" {
			if mine(shape) {
				why2, shape2, _ := judgeBind(&c, st, "Bind", direct)
				s.bad(why, shape, raw, obs, why2 != "" && shape2 == shape)
			} else {
				s.Extra["other_property_mismatches"] = intOf(s.Extra["other_property_mismatches"]) + 1
			}
			return
		}
		// a slice binding of two different blocks, the failing one first and a block that stores without error last: any block that
		// cannot be stored makes the whole Bind fail (C15: never silently drops)
		if c.BK == "slice" && c.NBlk == 2 && c.Expect == "error" && c.TK == "ptr-slice" {
			ok := bcl.Block{Type: blk.Type, Name: "", Fields: map[string]any{}}
			okAlone := bcl.SliceBinding{Value: []bcl.Block{ok}}
			mixed := bcl.SliceBinding{Value: []bcl.Block{blk, ok}}
			t1, _ := makeTarget(&c, st)
			t2, _ := makeTarget(&c, st)
			var e1, e2 error
			func() {
				defer func() { recover() }()
				e1 = bcl.Bind(t1, okAlone)
				e2 = bcl.Bind(t2, mixed)
			}()
			if e1 == nil && e2 == nil && mine("nil-for-error") {
				s.bad("a slice binding whose first block cannot be stored returns nil because its last block can", "nil-for-error", raw, map[string]string{"blocks": fmt.Sprintf("%+v", mixed.Value)}, true)
				return
			}
		}
		// the same through BCL text and Unmarshal (C05), where the binding can be written as a program
		if c.BK == "nil" || c.NBlk == 0 {
			return
		}
		var sb strings.Builder
		n := 1
		if c.BK == "slice" {
			n = c.NBlk
		}
		for i := 0; i < n; i++ {
			renderBlock(&sb, c.Blk, "")
		}
		ty := string(bytesOf(c.Blk.Type))
		if c.BK == "slice" {
			sb.WriteString("bind " + ty + ":all -> slice\n")
		} else {
			sb.WriteString("bind " + ty + " -> struct\n")
		}
		text := sb.String()
		s.Extra["unmarshal_cases"] = intOf(s.Extra["unmarshal_cases"]) + 1
		viaText := func(target any) error {
			return bcl.Unmarshal([]byte(text), target, bcl.OptLogger(&bytes.Buffer{}), bcl.OptOutput(&bytes.Buffer{}))
		}
		if why, shape, obs := judgeBind(&c, st, "Unmarshal", viaText); why != "" && mine(shape) {
			obs.Text = text
			why2, shape2, _ := judgeBind(&c, st, "Unmarshal", viaText)
			s.bad("via Unmarshal: "+why, shape, raw, obs, why2 != "" && shape2 == shape)
		}
	})
	return s.write(op)
}

func intOf(x any) int {
	if n, ok := x.(int); ok {
		return n
	}
	return 0
}

func init() { register("replay-bind", replayBind) }
