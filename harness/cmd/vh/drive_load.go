package main

import (
	"bufio"
	"bytes"
	"encoding/json"
	"fmt"
	"io"
	"math/rand"
	"os"
	"path/filepath"
	"regexp"
	"sort"
	"strings"
	"time"

	"github.com/wkhere/bcl"
)

// drive-load: real LoadProg runs on real dumps, whole and cut, delivered in reads of seeded sizes. Recorded for Trace_Load, in
// program order: every read of the source (bytes delivered; 0 = the end reported) and every section event of the hook in
// prog.go, then the label of the returned error and, for an accepted file, what the loaded program dumps to. TLC folds the
// events through the L2 machine BclLoad.

type loadEv struct {
	T string `json:"t"`
	N int    `json:"n"`
	A int    `json:"a"`
	B int    `json:"b"`
}

// tracedReader delivers data in reads whose sizes cycle through pat (0 in pat = as much as asked for) and logs every read
type tracedReader struct {
	data    []byte
	pat     []int
	i       int
	evs     *[]loadEv
	eofData bool
}

func (r *tracedReader) Read(p []byte) (int, error) {
	if len(r.data) == 0 {
		*r.evs = append(*r.evs, loadEv{T: "rd", B: 1})
		return 0, io.EOF
	}
	n := len(p)
	if len(r.pat) > 0 {
		k := r.pat[r.i%len(r.pat)]
		r.i++
		if k == -1 {
			// a zero-byte read without an error
			*r.evs = append(*r.evs, loadEv{T: "rd"})
			return 0, nil
		}
		if k > 0 && k < n {
			n = k
		}
	}
	if n > len(r.data) {
		n = len(r.data)
	}
	copy(p, r.data[:n])
	r.data = r.data[n:]
	if len(r.data) == 0 && r.eofData {
		// the last bytes together with io.EOF
		*r.evs = append(*r.evs, loadEv{T: "rd", N: n, B: 1})
		return n, io.EOF
	}
	*r.evs = append(*r.evs, loadEv{T: "rd", N: n})
	return n, nil
}

var reIdx = regexp.MustCompile(`\[\d+\]$`)

// loadLabel: the text of a load error up to its first colon, without an item index ("constant[3]: unexpected EOF" -> "constant")
func loadLabel(err error) string {
	if err == nil {
		return "ok"
	}
	s := err.Error()
	if i := strings.Index(s, ":"); i >= 0 {
		s = s[:i]
	}
	return reIdx.ReplaceAllString(s, "")
}

func driveLoad(args []string) int {
	op := parseOpts(args)
	n := op.int("n", 300)
	seed := int64(op.int("seed", 1))
	maxLen := op.int("maxlen", 700)
	outp := op.str("out", "loadruns.ndjson")
	f, err := os.Create(outp)
	if err != nil {
		fmt.Fprintln(os.Stderr, err)
		return 2
	}
	defer f.Close()
	w := bufio.NewWriterSize(f, 1<<20)
	defer w.Flush()
	enc := json.NewEncoder(w)
	s := newSummary("drive-load")
	g := newProgen(seed)
	g.maxDepth = 2
	r := rand.New(rand.NewSource(seed*131 + 7))
	pats := [][]int{nil, {1}, {2}, {3, 1}, {7}, {8}, {9}, {10}, {9, 8, 1}, {100}, {4095, 2}, {4096}, {1, 0}, {5, 0, 1}, {2, -1}, {-1, 9, -1, -1, 1}}
	// sources: generated programs, plus size-class programs (string constants, identifiers, names, line tables around the varint
	// classes) small enough for TLC to decode, plus a few whose code or strings exceed the loader's 4096-byte buffer
	var srcs [][2]string
	for i := 0; i < n; i++ {
		srcs = append(srcs, [2]string{g.program(1 + g.r.Intn(4)), "g.bcl"})
	}
	for _, kd := range []string{"strconst", "strconst2", "ident", "name", "noname", "offset", "comment", "lastlf", "blank", "code", "lines"} {
		for _, k := range []int{0, 1, 95, 96, 239, 240, 241, 242} {
			src, name := sizeSource(kd, k)
			srcs = append(srcs, [2]string{string(src), name})
		}
	}
	big := 0
	for _, kd := range []string{"strconst", "code", "name", "lines"} {
		src, name := sizeSource(kd, 4200+int(seed%7))
		srcs = append(srcs, [2]string{string(src), name})
		big++
	}
	// recorded version-1.1 files (the corpus of C14: pinned-build dumps and files assembled by the specification, with NOP, LOOP and
	// negative-int / bool / nil constants the compiler never writes)
	var corpusFiles [][]byte
	if dir := op.str("corpus", ""); dir != "" {
		names, _ := filepath.Glob(filepath.Join(dir, "*.bcb"))
		sort.Strings(names)
		for _, nm := range names {
			if b, err := os.ReadFile(nm); err == nil && len(b) <= maxLen {
				corpusFiles = append(corpusFiles, b)
			}
		}
	}
	var evs []loadEv
	setSink(func(e bcl.VerifEvent) {
		if e.G == "D" && e.Kind == "ld" {
			evs = append(evs, loadEv{T: "ld", A: e.A, B: e.B})
		}
	})
	defer setSink(nil)
	for i := 0; i < len(srcs)+len(corpusFiles); i++ {
		var file []byte
		sn := [2]string{"(corpus file)", ""}
		isBig := false
		if i >= len(srcs) {
			file = corpusFiles[i-len(srcs)]
		} else {
			sn = srcs[i]
			var p *bcl.Prog
			var perr error
			func() {
				defer func() { recover() }()
				p, perr = bcl.Parse([]byte(sn[0]), sn[1], bcl.OptLogger(io.Discard), bcl.OptOutput(io.Discard))
			}()
			if perr != nil || p == nil {
				continue
			}
			var b bytes.Buffer
			if p.Dump(&b) != nil {
				continue
			}
			isBig = i >= len(srcs)-big
			if b.Len() > maxLen && !isBig {
				continue
			}
			file = b.Bytes()
		}
		if !s.note(file, true, []byte(fmt.Sprintf("%q", sn[0]))) {
			continue
		}
		// the whole file under two deliveries, and cuts: the section boundaries are found by a first whole load's events are not
		// known here, so cuts are seeded (a few anywhere, a few near the end) — the exhaustive cut sweep is replay-format's
		cuts := []int{len(file), len(file)}
		nc := 4
		if isBig {
			nc = 2
		}
		for k := 0; k < nc; k++ {
			cuts = append(cuts, r.Intn(len(file)))
		}
		cuts = append(cuts, len(file)-1, len(file)-1-r.Intn(1+len(file)/4))
		if len(file) <= 64 {
			// small files: every cut (every boundary between two fields among them)
			cuts = cuts[:2]
			for c := 0; c < len(file); c++ {
				cuts = append(cuts, c)
			}
		}
		for _, c := range cuts {
			if c < 0 {
				c = 0
			}
			pat := pats[r.Intn(len(pats))]
			if isBig {
				// thousands of one-byte reads teach nothing new and cost the judge time: large files get large reads
				pat = [][]int{nil, {100}, {4095, 2}, {4096}, {900, 0}}[r.Intn(5)]
			}
			evs = evs[:0]
			rd := &tracedReader{data: append([]byte{}, file[:c]...), pat: pat, evs: &evs, eofData: !isBig && r.Intn(3) == 0}
			var lp *bcl.Prog
			var lerr error
			ret := ""
			done := make(chan struct{})
			go func() {
				defer close(done)
				defer func() {
					if x := recover(); x != nil {
						ret = "panic"
					}
				}()
				lp, lerr = bcl.LoadProg(rd, "other.bcb", bcl.OptLogger(io.Discard), bcl.OptOutput(io.Discard))
			}()
			select {
			case <-done:
			case <-time.After(10 * time.Second):
				s.bad("LoadProg did not return", "load:hang", []byte(fmt.Sprintf("{\"cut\":%d,\"len\":%d}", c, len(file))), sn[0], true)
				return s.write(op)
			}
			if ret == "" {
				ret = loadLabel(lerr)
			}
			redump := []int{}
			if ret == "ok" && lp != nil {
				var b2 bytes.Buffer
				func() {
					defer func() { recover() }()
					lp.Dump(&b2)
				}()
				redump = intsOf(b2.Bytes())
			}
			rec := map[string]any{"file": intsOf(file[:c]), "evs": append([]loadEv{}, evs...), "ret": ret, "redump": redump,
				"cut": c, "full": len(file), "src": sn[0]}
			if len(evs) == 0 {
				rec["evs"] = []loadEv{}
			}
			enc.Encode(rec)
			s.Judged++
			s.Classes[map[bool]string{true: "whole", false: "cut"}[c == len(file)]]++
		}
	}
	s.Extra["runs"] = s.Judged
	return s.write(op)
}

func init() { register("drive-load", driveLoad) }
