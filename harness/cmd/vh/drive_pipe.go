package main

import (
	"bufio"
	"encoding/json"
	"errors"
	"fmt"
	"io"
	"math/rand"
	"os"
	"runtime"
	"strconv"
	"strings"
	"sync"
	"sync/atomic"
	"time"

	"github.com/wkhere/bcl"
)

// drive-pipe: real ParseFile calls on scripted inputs with all pipeline hooks on; one event log per goroutine role.
// The logs carry no global order (only line-table events get a global sequence number, taken inside the hook and therefore
// inside the critical section when there is one); Trace_Pipe finds an interleaving and recomputes happens-before.

type pev struct {
	K string `json:"k"`
	A int    `json:"a"`
	B int    `json:"b"`
	Q int    `json:"q"`
}

func goid() int {
	var buf [64]byte
	n := runtime.Stack(buf[:], false)
	f := strings.Fields(string(buf[:n]))
	if len(f) >= 2 {
		id, _ := strconv.Atoi(f[1])
		return id
	}
	return -1
}

type pipeRecorder struct {
	mu    sync.Mutex
	logs  map[string][]pev
	roles map[int]string
	lfsq  int32
	jit   *rand.Rand
	jitOn bool
}

func (r *pipeRecorder) sink(e bcl.VerifEvent) {
	if e.Kind == "step" {
		return
	}
	q := 0
	if e.Kind == "lfswrite" || e.Kind == "lfsread" {
		q = int(atomic.AddInt32(&r.lfsq, 1)) // taken here: inside the critical section if the access is in one
	}
	id := goid()
	r.mu.Lock()
	role := e.G
	if role == "" {
		role = r.roles[id]
	} else {
		r.roles[id] = role
	}
	if e.Kind == "need" {
		// the hook point before the lexer's receive: a place to wait (jitter below), not an event of the logs
	} else if role == "R" || role == "L" || role == "P" || role == "C" {
		r.logs[role] = append(r.logs[role], pev{e.Kind, e.A, e.B, q})
	} else if q != 0 {
		// an access from another goroutine (none is expected during ParseFile)
		r.logs["X"] = append(r.logs["X"], pev{e.Kind, e.A, e.B, q})
	}
	k := 0
	if r.jitOn {
		k = r.jit.Intn(12)
	}
	r.mu.Unlock()
	switch {
	case k >= 9:
		time.Sleep(time.Duration(10+k*8) * time.Microsecond)
	case k >= 5:
		runtime.Gosched()
	}
}

type recFile struct {
	scriptedFile
	rec *pipeRecorder
}

func (f *recFile) Close() error {
	f.scriptedFile.Close()
	f.rec.sink(bcl.VerifEvent{G: "R", Kind: "close"})
	return nil
}

func chopped(src string, m int, r *rand.Rand) []readStep {
	var st []readStep
	b := []byte(src)
	for len(b) > 0 {
		n := m
		if r != nil {
			n = 1 + r.Intn(2*m)
		}
		if n > len(b) {
			n = len(b)
		}
		st = append(st, readStep{data: b[:n]})
		b = b[n:]
	}
	return st
}

func pipeScenario(r *rand.Rand, kind int) (desc string, steps []readStep) {
	lines := func(n int, bad func(i int) bool) string {
		var sb strings.Builder
		for i := 0; i < n; i++ {
			if bad(i) {
				sb.WriteString(pickS(r, "print )\n", "var = 1\n", "eval * 2\n", "print 1 2\n"))
			} else {
				sb.WriteString(pickS(r, "print 1\n", "var x"+strconv.Itoa(i)+" = 2\n", "eval 3 + 4\n", "def b { f = 1 }\n", "# c\n"))
			}
		}
		return sb.String()
	}
	switch kind % 10 {
	case 8, 9: // a lexical failure (or a syntax error) in the first page, and the read that is in flight meanwhile fails
		src := lines(1+r.Intn(3), func(int) bool { return false }) + pickS(r, "$\n", "print \"x\n", "def b { $ }\n", "print )\n") + lines(2, func(int) bool { return false })
		st := []readStep{{data: []byte(src)}, {err: errScripted}}
		if kind%10 == 9 {
			st = append(chopped(src, 30, r), readStep{err: errScripted})
		}
		return "failure-then-read-error", st
	case 6: // the input ends in the middle of a multi-byte character (in a comment, in a string, at toplevel)
		tail := pickS(r, "# caf\xc3", "print \"\xe2\x82", "print 1\n\xc2", "def b {\n f = 1 }\n\xe2")
		st := chopped(lines(4, func(int) bool { return false })+tail, 9, r)
		return "truncated-rune-at-end", st
	case 7: // a read error that wraps io.EOF
		st := chopped(lines(8, func(i int) bool { return false }), 15, r)
		k := 1 + len(st)/2
		st = append(st[:k], readStep{err: errWrapsEOF})
		return "read-error wrapping io.EOF", st
	case 0: // many erroneous lines read a few bytes at a time: diagnostics while the lexer refills
		n := 20 + r.Intn(60)
		if r.Intn(3) == 0 {
			n += 150 // far more diagnostics than any plausible cap on them, and plenty of input after that
		}
		m := 5 + r.Intn(30)
		return fmt.Sprintf("erroneous-lines n=%d m=%d", n, m), chopped(lines(n, func(i int) bool { return i%3 != 1 }), m, nil)
	case 1: // valid multi-chunk program
		n := 10 + r.Intn(40)
		return fmt.Sprintf("valid n=%d", n), chopped(lines(n, func(int) bool { return false }), 16, r)
	case 2: // early lexical failure, much input left
		n := 30 + r.Intn(40)
		src := lines(3, func(int) bool { return false }) + pickS(r, "$\n", "def b { f = 1\n $\n", "def b { def c {\n g = \"x\n") + lines(n, func(int) bool { return false })
		return "early-lexfail", chopped(src, 12, r)
	case 3: // late syntax error, zero-byte reads, data with EOF
		src := lines(12, func(i int) bool { return i == 10 })
		st := chopped(src, 20, r)
		st = append(st[:1], append([]readStep{{}}, st[1:]...)...)
		st[len(st)-1].err = io.EOF
		return "late-syntax-error+zero-read+eofdata", st
	case 4: // read error in the middle
		st := chopped(lines(15, func(i int) bool { return i == 2 }), 25, r)
		k := len(st) / 2
		st = append(st[:k], readStep{err: errScripted})
		return "read-error", st
	default: // random short script as in the model
		var st []readStep
		n := r.Intn(5)
		for i := 0; i < n; i++ {
			it := pipeItem{N: r.Intn(2), E: pickS(r, "nil", "nil", "nil", "eof", "err"), Toks: r.Intn(3), Bad: r.Intn(4) == 0, Fail: r.Intn(5) == 0}
			if it.N == 0 {
				it.Toks, it.Bad, it.Fail = 0, false, false
			}
			st = append(st, it.step())
			if it.E == "eof" {
				break // a reader has nothing more to give after EOF
			}
		}
		return "model-script", st
	}
}

func pickS(r *rand.Rand, xs ...string) string { return xs[r.Intn(len(xs))] }

func drivePipe(args []string) int {
	op := parseOpts(args)
	n := op.int("n", 100)
	seed := int64(op.int("seed", 1))
	outp := op.str("out", "trace.ndjson")
	f, err := os.Create(outp)
	if err != nil {
		fmt.Fprintln(os.Stderr, err)
		return 2
	}
	defer f.Close()
	w := bufio.NewWriterSize(f, 1<<20)
	defer w.Flush()
	enc := json.NewEncoder(w)
	s := newSummary("drive-pipe")
	r := rand.New(rand.NewSource(seed))
	events := 0
	for i := 0; i < n; i++ {
		desc, steps := pipeScenario(r, i)
		rec := &pipeRecorder{logs: map[string][]pev{"R": {}, "L": {}, "P": {}, "C": {}}, roles: map[int]string{}, jit: rand.New(rand.NewSource(seed*7919 + int64(i))), jitOn: i%2 == 1}
		file := &recFile{scriptedFile: scriptedFile{name: "t.bcl", steps: steps}, rec: rec}
		setSink(rec.sink)
		type res struct{ err error }
		done := make(chan res, 1)
		go func() {
			_, e := bcl.ParseFile(file, bcl.OptLogger(io.Discard), bcl.OptOutput(io.Discard))
			done <- res{e}
		}()
		var e error
		select {
		case x := <-done:
			e = x.err
		case <-time.After(5 * time.Second):
			setSink(nil)
			s.bad("ParseFile did not return within the watchdog ("+desc+")", "hang", []byte(strconv.Quote(desc)), desc, true)
			continue
		}
		// quiescence
		deadline := time.Now().Add(1000 * time.Millisecond)
		for time.Now().Before(deadline) {
			if atomic.LoadInt32(&file.closes) >= 1 && bclGoroutines() == "" {
				break
			}
			time.Sleep(100 * time.Microsecond)
		}
		setSink(nil)
		ret := 0
		switch {
		case e == nil:
		case errors.Is(e, errScripted) || e == errWrapsEOF:
			ret = 3
		default:
			ret = 1
		}
		rec.mu.Lock()
		ne := 0
		for _, l := range rec.logs {
			ne += len(l)
		}
		enc.Encode(map[string]any{"id": i, "desc": desc, "logs": rec.logs, "closes": int(atomic.LoadInt32(&file.closes)), "ret": ret})
		rec.mu.Unlock()
		events += ne
		s.Cases++
		s.Judged++
		s.Distinct++
		s.Classes[strings.Fields(desc)[0]]++
		if len(steps) >= 3 {
			s.Nontrivial++
		}
		if len(s.Samples) < 3 {
			js, _ := json.Marshal(map[string]any{"desc": desc, "events": ne, "ret": ret})
			s.Samples = append(s.Samples, js)
		}
	}
	s.Extra["events"] = events
	return s.write(op)
}

func init() { register("drive-pipe", drivePipe) }
