package main

import (
	"bufio"
	"bytes"
	"encoding/json"
	"fmt"
	"os"
	"regexp"
	"strconv"
	"strings"

	"github.com/wkhere/bcl"
)

// drive-obs (C19): every program (accepted, rejected, failing at run time) is run under all eight combinations of
// OptDisasm / OptTrace / OptStats. Equalities between real runs are judged here (the specification says which: everything but the
// output writer's extra lines must equal the option-free run); the *structure* of the extra text of the all-on run is written as
// events for Trace_Obs, which checks it against BclVM running the decoded real dump.

var (
	reInstr = regexp.MustCompile(`^(\d{4,}) +(\S+)( +(\S+))?(.*)$`)
	reStack = regexp.MustCompile(`^ {13}(\d+): `)
	reStat  = regexp.MustCompile(`^([px]stats)\.(\w+): *(-?\d+)$`)
	reHead  = regexp.MustCompile(`^== .* ==$`)
)

type obsRun struct {
	Err, Log, Res, Out string
	Panic              string
}

func runWithOpts(src []byte, d, t, st bool) (o obsRun) {
	defer func() {
		if r := recover(); r != nil {
			o.Panic = fmt.Sprint(r)
		}
	}()
	var out, lg bytes.Buffer
	res, bind, err := bcl.Interpret(src, bcl.OptDisasm(d), bcl.OptTrace(t), bcl.OptStats(st), bcl.OptOutput(&out), bcl.OptLogger(&lg))
	if err != nil {
		o.Err = err.Error()
	}
	o.Log, o.Out = lg.String(), out.String()
	o.Res = canonBlocks(res) + " / " + canonBinding(bind)
	return o
}

// failWriter accepts limit bytes and fails every write after that (a closed pipe, a full disk)
type failWriter struct{ limit, n int }

func (w *failWriter) Write(p []byte) (int, error) {
	if w.n+len(p) > w.limit {
		k := w.limit - w.n
		if k < 0 {
			k = 0
		}
		w.n += k
		return k, fmt.Errorf("write failed")
	}
	w.n += len(p)
	return len(p), nil
}

// runFailing: the same call with an output writer that fails after limit bytes; what the call returns must not depend on the options
func runFailing(src []byte, d, t, st bool, limit int) (o obsRun) {
	defer func() {
		if r := recover(); r != nil {
			o.Panic = fmt.Sprint(r)
		}
	}()
	var lg bytes.Buffer
	res, bind, err := bcl.Interpret(src, bcl.OptDisasm(d), bcl.OptTrace(t), bcl.OptStats(st), bcl.OptOutput(&failWriter{limit: limit}), bcl.OptLogger(&lg))
	if err != nil {
		o.Err = err.Error()
	}
	o.Log = lg.String()
	o.Res = canonBlocks(res) + " / " + canonBinding(bind)
	return o
}

// splitObs separates the output writer's text into the program's own lines and the observation events
func splitObs(out string) (own string, events []map[string]any, bad string) {
	lines := strings.Split(out, "\n")
	if len(lines) > 0 && lines[len(lines)-1] == "" {
		lines = lines[:len(lines)-1]
	}
	var sb strings.Builder
	for i := 0; i < len(lines); i++ {
		l := lines[i]
		switch {
		case reHead.MatchString(l):
			events = append(events, map[string]any{"e": "header"})
		case reStat.MatchString(l):
			m := reStat.FindStringSubmatch(l)
			n, _ := strconv.Atoi(m[3])
			events = append(events, map[string]any{"e": "stat", "grp": m[1], "key": m[2], "n": n})
		case reStack.MatchString(l):
			m := reStack.FindStringSubmatch(l)
			depth, _ := strconv.Atoi(m[1])
			if i+1 >= len(lines) || !reInstr.MatchString(lines[i+1]) {
				return "", nil, "a stack line of the trace is not followed by an instruction line: " + l
			}
			mi := instrOf(lines[i+1])
			events = append(events, map[string]any{"e": "trace", "depth": depth, "off": mi.off, "op": mi.op, "pl": mi.pl, "pc": mi.pc, "arg": mi.arg, "target": mi.target})
			i++
		case reInstr.MatchString(l):
			mi := instrOf(l)
			events = append(events, map[string]any{"e": "disasm", "off": mi.off, "op": mi.op, "depth": 0, "pl": mi.pl, "pc": mi.pc, "arg": mi.arg, "target": mi.target})
		default:
			sb.WriteString(l + "\n")
		}
	}
	return sb.String(), events, ""
}

type instrLine struct {
	off, pl, pc, arg, target int
	op                       string
}

// instrOf parses one listing line: offset, position column ("L:C" or "|"), mnemonic, first numeric operand, jump target
func instrOf(l string) instrLine {
	il := instrLine{arg: -1, target: -1}
	w := strings.IndexByte(l, ' ') // the offset column is as wide as the number needs (at least four digits)
	if w < 0 {
		w = len(l)
	}
	il.off, _ = strconv.Atoi(l[:w])
	f := strings.Fields(l[w:])
	if len(f) >= 1 && f[0] != "|" {
		if i := strings.IndexByte(f[0], ':'); i > 0 {
			il.pl, _ = strconv.Atoi(f[0][:i])
			il.pc, _ = strconv.Atoi(f[0][i+1:])
		}
	}
	if len(f) >= 2 {
		il.op = f[1]
	}
	if len(f) >= 3 {
		if n, err := strconv.Atoi(f[2]); err == nil {
			il.arg = n
		}
	}
	if i := strings.Index(l, " -> "); i >= 0 && (il.op == "JUMP" || il.op == "JFALSE" || il.op == "LOOP") {
		il.target, _ = strconv.Atoi(strings.TrimSpace(l[i+4:]))
	}
	return il
}

func driveObs(args []string) int {
	op := parseOpts(args)
	outp := op.str("out", "trace.ndjson")
	max := op.int("max", 1000)
	stride := op.int("stride", 1)
	seed := op.int("seed", 1)
	f, err := os.Create(outp)
	if err != nil {
		fmt.Fprintln(os.Stderr, err)
		return 2
	}
	defer f.Close()
	w := bufio.NewWriterSize(f, 1<<20)
	defer w.Flush()
	enc := json.NewEncoder(w)
	s := newSummary("drive-obs")
	traces, seen := 0, 0
	eachCase(openIn(op), func(raw []byte) {
		var c struct {
			Src   []int  `json:"src"`
			Thin  int    `json:"thin"`
			Shape string `json:"shape"`
			N     int    `json:"n"`
		}
		if json.Unmarshal(raw, &c) == nil && c.Thin > 0 {
			stride = c.Thin // a marker line of the runner: the cases that follow are thinned one in c.Thin
			return
		}
		if json.Unmarshal(raw, &c) != nil || (len(c.Src) == 0 && c.Shape == "") {
			return
		}
		src := bytesOf(c.Src)
		if c.Shape != "" {
			src = []byte(scaleSource(c.Shape, c.N))
		}
		if !s.note(src, true, raw) {
			return
		}
		seen++
		if c.Shape == "" && (!thinKeep(src, stride, seed) || s.Judged >= max) {
			return
		}
		s.Judged++
		base := runWithOpts(src, false, false, false)
		if base.Panic != "" {
			return // C06's subject
		}
		switch {
		case base.Err == "":
			s.Classes["ok"]++
		case strings.HasPrefix(base.Err, "runtime error"):
			s.Classes["runtime-error"]++
		default:
			s.Classes["rejected"]++
		}
		var allOn obsRun
		for k := 1; k < 8; k++ {
			d, t, st := k&1 != 0, k&2 != 0, k&4 != 0
			o := runWithOpts(src, d, t, st)
			name := fmt.Sprintf("disasm=%v trace=%v stats=%v", d, t, st)
			if o.Panic != "" {
				s.bad("panic with "+name+": "+o.Panic, "obs:panic", raw, o, true)
				return
			}
			if o.Err != base.Err || o.Log != base.Log || o.Res != base.Res {
				s.bad("error, diagnostics, blocks or binding change with "+name, "obs:changes-result", raw, map[string]any{"plain": base, "with": o}, true)
				return
			}
			own, _, bad := splitObs(o.Out)
			if bad != "" {
				s.bad(bad+" ("+name+")", "obs:structure", raw, o.Out, true)
				return
			}
			if own != base.Out {
				s.bad("the lines printed by the program change with "+name, "obs:changes-output", raw, map[string]any{"plain": base.Out, "with": o.Out}, true)
				return
			}
			if k == 7 {
				allOn = o
			}
		}
		// an output writer that fails (at once, after a few bytes): error, diagnostics, blocks and binding are still those of the
		// plain run with the same writer, whatever is switched on
		for _, limit := range []int{0, 9} {
			fb := runFailing(src, false, false, false, limit)
			if fb.Panic != "" {
				break // C06's subject
			}
			for k := 1; k < 8; k++ {
				d, t, st := k&1 != 0, k&2 != 0, k&4 != 0
				o := runFailing(src, d, t, st, limit)
				name := fmt.Sprintf("disasm=%v trace=%v stats=%v and an output writer failing after %d bytes", d, t, st, limit)
				if o.Panic != "" {
					s.bad("panic with "+name+": "+o.Panic, "obs:panic-failing-writer", raw, o, true)
					return
				}
				if o.Err != fb.Err || o.Log != fb.Log || o.Res != fb.Res {
					s.bad("error, diagnostics, blocks or binding change with "+name, "obs:changes-result-failing-writer", raw, map[string]any{"plain": fb, "with": o}, true)
					return
				}
			}
		}
		// parsing and executing as two calls with two different output writers: where the program's own lines go must not depend
		// on the introspection options of the Execute call
		if base.Err == "" || strings.HasPrefix(base.Err, "runtime error") {
			twoStep := func(t, st bool) (a, b string, bad string) {
				defer func() {
					if r := recover(); r != nil {
						bad = fmt.Sprint("panic: ", r)
					}
				}()
				var wa, wb, lg bytes.Buffer
				p, err := bcl.Parse(src, "input", bcl.OptOutput(&wa), bcl.OptLogger(&lg))
				if err != nil {
					return "", "", ""
				}
				bcl.Execute(p, bcl.OptTrace(t), bcl.OptStats(st), bcl.OptOutput(&wb), bcl.OptLogger(&lg))
				oa, _, ba := splitObs(wa.String())
				ob, _, bb := splitObs(wb.String())
				return oa, ob, ba + bb
			}
			a0, b0, _ := twoStep(false, false)
			for k := 1; k < 4; k++ {
				a, b, bad := twoStep(k&1 != 0, k&2 != 0)
				if bad != "" || a != a0 || b != b0 {
					s.bad(fmt.Sprintf("with the program parsed for one output writer and executed with another, the lines printed by the program move or change when trace=%v stats=%v", k&1 != 0, k&2 != 0),
						"obs:changes-output", raw, map[string]string{"prog_writer_plain": a0, "exec_writer_plain": b0, "prog_writer": a, "exec_writer": b, "structure": bad}, true)
					return
				}
			}
		}
		// the structure of the all-on run goes to TLC together with the real dump
		p, perr := bcl.Parse(src, "input", bcl.OptLogger(&bytes.Buffer{}), bcl.OptOutput(&bytes.Buffer{}))
		hdr := map[string]any{"e": "reset", "accepted": perr == nil, "dump": []int{}, "src": string(src), "srcb": intsOf(src), "err": vmErrClassS(base.Err)}
		if perr == nil {
			var d bytes.Buffer
			if p.Dump(&d) != nil || (d.Len() > 2500 && c.Shape == "") || d.Len() > 12000 {
				return
			}
			hdr["dump"] = intsOf(d.Bytes())
		}
		_, events, _ := splitObs(allOn.Out)
		if len(events) > 600 && c.Shape == "" || len(events) > 6000 {
			return
		}
		enc.Encode(hdr)
		for _, e := range events {
			for _, k := range []string{"off", "op", "depth", "grp", "key", "n", "pl", "pc", "arg", "target"} {
				if _, ok := e[k]; !ok {
					if k == "op" || k == "grp" || k == "key" {
						e[k] = ""
					} else {
						e[k] = 0
					}
				}
			}
			enc.Encode(e)
		}
		traces++
	})
	s.Extra["traces"] = traces
	return s.write(op)
}

func vmErrClassS(e string) string {
	if e == "" {
		return ""
	}
	return vmErrClass(fmt.Errorf("%s", e))
}

func init() { register("drive-obs", driveObs) }

// replay-listing (C19): programs with more than 9 999 bytes of code; the specification writes out offset and mnemonic of every line
// of the disassembly (Gen_Listing); the trace must list the same instructions in the same order and the statistics must count them.
func replayListing(args []string) int {
	op := parseOpts(args)
	s := newSummary("listing")
	eachCase(openIn(op), func(raw []byte) {
		var c struct {
			Fam   string `json:"fam"`
			N     int    `json:"n"`
			Lines []struct {
				Off int    `json:"off"`
				Op  string `json:"op"`
			} `json:"lines"`
			OpsRead int `json:"opsread"`
		}
		if json.Unmarshal(raw, &c) != nil || c.Fam != "listing" {
			s.Skipped++
			return
		}
		short := []byte(fmt.Sprintf(`{"fam":"listing","n":%d}`, c.N))
		if !s.note(short, true, short) {
			return
		}
		s.Judged++
		src := []byte(strings.Repeat("print 1;", c.N) + "\n")
		o := runWithOpts(src, true, true, true)
		if o.Panic != "" || o.Err != "" {
			s.bad(fmt.Sprintf("n=%d: the program does not run with all options on: %s %s", c.N, o.Panic, o.Err), "listing:run", short, o.Err, true)
			return
		}
		_, events, bad := splitObs(o.Out)
		if bad != "" {
			s.bad(bad, "obs:structure", short, nil, true)
			return
		}
		var dis, trc []map[string]any
		opsRead := -1
		for _, e := range events {
			switch e["e"] {
			case "disasm":
				dis = append(dis, e)
			case "trace":
				trc = append(trc, e)
			case "stat":
				if e["key"] == "opsRead" || e["key"] == "ops_read" || strings.EqualFold(fmt.Sprint(e["key"]), "opsread") {
					opsRead = e["n"].(int)
				}
			}
		}
		for name, got := range map[string][]map[string]any{"disassembly": dis, "trace": trc} {
			if len(got) != len(c.Lines) {
				s.bad(fmt.Sprintf("n=%d: the %s has %d instruction lines, the program has %d instructions", c.N, name, len(got), len(c.Lines)), "listing:count", short, len(got), true)
				return
			}
			for i, w := range c.Lines {
				if got[i]["off"] != w.Off || got[i]["op"] != w.Op {
					s.bad(fmt.Sprintf("n=%d: line %d of the %s reads offset %v %v, the instruction there is %d %s", c.N, i+1, name, got[i]["off"], got[i]["op"], w.Off, w.Op), "listing:line", short,
						map[string]any{"line": i + 1, "got_off": got[i]["off"], "got_op": got[i]["op"]}, true)
					return
				}
			}
		}
		if opsRead >= 0 && opsRead != c.OpsRead {
			s.bad(fmt.Sprintf("n=%d: the statistics report %d instructions read, the trace lists %d", c.N, opsRead, c.OpsRead), "listing:opsread", short, opsRead, true)
		}
	})
	return s.write(op)
}

func init() { register("replay-listing", replayListing) }
