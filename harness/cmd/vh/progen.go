package main

import (
	"fmt"
	"math/rand"
	"strings"
)

// progen: a seeded, *type-directed* generator of BCL programs for the TV drivers. It tracks the kind every sub-expression
// will have, so that most programs run to completion (long VM traces) and the rest fail at a chosen operator. It carries no
// expectations: what the program means is decided by the specification in TLC, from the recorded execution.

type pvar struct {
	name, kind string
}

type progen struct {
	r          *rand.Rand
	vars       []pvar   // visible variables, innermost last
	marks      []int    // len(vars) at each open scope
	fields     [][]pvar // fields assigned so far in each open block
	failRate   int      // percent of operator nodes that deliberately get an operand of a wrong kind
	maxDepth   int
	blockTypes []string
	nblocks    map[string]int
	bigStr     bool
}

func newProgen(seed int64) *progen {
	return &progen{r: rand.New(rand.NewSource(seed)), failRate: 2, maxDepth: 4, blockTypes: []string{"srv", "db", "k"}, nblocks: map[string]int{}}
}

func (g *progen) pick(xs ...string) string { return xs[g.r.Intn(len(xs))] }

func (g *progen) varsOf(kind string) []string {
	var out []string
	seen := map[string]bool{}
	for i := len(g.vars) - 1; i >= 0; i-- {
		v := g.vars[i]
		if seen[v.name] {
			continue
		}
		seen[v.name] = true
		if v.kind == kind {
			out = append(out, v.name)
		}
	}
	// fields of the open blocks (innermost first); a variable of the same name hides them
	for b := len(g.fields) - 1; b >= 0; b-- {
		for _, f := range g.fields[b] {
			if !seen[f.name] {
				seen[f.name] = true
				if f.kind == kind {
					out = append(out, f.name)
				}
			}
		}
	}
	return out
}

func (g *progen) lit(kind string) string {
	switch kind {
	case "int":
		return g.pick("0", "1", "2", "3", "7", "10", "0x1f", "017", "42", "100", "0X0", "01")
	case "float":
		return g.pick("0.5", "1.5", "2.0", "0.25", "4.0", "25e-1", "1E+1", "0.0", "3.75", "1000000.0")
	case "str":
		if g.bigStr && g.r.Intn(6) == 0 {
			return `"` + strings.Repeat("ab", 40+g.r.Intn(120)) + `"`
		}
		return g.pick(`""`, `"a"`, `"b"`, `"ab"`, `"x y"`, `"\x41"`, `"q\"r"`, `"é"`, `"#;("`, `"\n"`)
	case "bool":
		return g.pick("true", "false")
	}
	return "nil"
}

var kinds = []string{"int", "float", "str", "bool", "nil"}

func (g *progen) otherKind(kind string) string {
	for {
		k := kinds[g.r.Intn(len(kinds))]
		if k != kind {
			return k
		}
	}
}

// expr returns an expression that evaluates to a value of the given kind (unless a failure is injected)
func (g *progen) expr(kind string, d int) string {
	if g.r.Intn(100) < g.failRate && d > 0 {
		// a wrong operand kind somewhere below
		return g.expr(g.otherKind(kind), d-1)
	}
	if d <= 0 || g.r.Intn(4) == 0 {
		if vs := g.varsOf(kind); len(vs) > 0 && g.r.Intn(2) == 0 {
			return vs[g.r.Intn(len(vs))]
		}
		return g.lit(kind)
	}
	sub := func(k string) string { return g.expr(k, d-1) }
	par := func(s string) string {
		if g.r.Intn(3) == 0 {
			return "(" + s + ")"
		}
		return s
	}
	switch g.r.Intn(10) {
	case 0: // assignment as expression to a variable/field of that kind
		if vs := g.varsOf(kind); len(vs) > 0 {
			return "(" + vs[g.r.Intn(len(vs))] + " = " + sub(kind) + ")"
		}
	case 1: // short-circuit forms that return an operand of the wanted kind
		switch g.r.Intn(4) {
		case 0:
			return par(g.pick("1", `"t"`, "true", "2.5") + " and " + sub(kind))
		case 1:
			return par(g.pick("0", `""`, "false", "nil", "0.0") + " or " + sub(kind))
		case 2:
			return "(" + sub("bool") + " and " + sub(kind) + " or " + sub(kind) + ")"
		default:
			if kind != "bool" && kind != "nil" {
				return "(" + g.lit(kind) + " or " + sub(g.otherKind(kind)) + ")"
			}
		}
	case 2:
		return "(" + sub(kind) + ")"
	}
	switch kind {
	case "int":
		switch g.r.Intn(7) {
		case 0:
			return par(sub("int") + " + " + sub("int"))
		case 1:
			return par(sub("int") + " - " + sub("int"))
		case 2:
			return par(g.pick("2", "3", "-1", "0") + " * " + sub("int"))
		case 3:
			return par(sub("int") + " / " + g.pick("1", "2", "3", "7", "-2"))
		case 4:
			return "-" + g.pick(g.lit("int"), "("+sub("int")+")")
		case 5:
			return "+" + g.pick(g.lit("int"), "("+sub("int")+")")
		default:
			return par(sub("int") + " * " + g.pick("1", "2", "0"))
		}
	case "float":
		switch g.r.Intn(6) {
		case 0:
			return par(sub("float") + " + " + sub("int"))
		case 1:
			return par(sub("int") + " - " + sub("float"))
		case 2:
			return par(sub("float") + " * " + g.pick("2", "0.5", "4.0"))
		case 3:
			return par(sub("float") + " / " + g.pick("2", "4.0", "0.5", "8"))
		case 4:
			return "-" + g.lit("float")
		default:
			return par(sub("float") + " + " + sub("float"))
		}
	case "str":
		switch g.r.Intn(6) {
		case 0:
			return par(sub("str") + " + " + sub("str"))
		case 1:
			return par(sub("str") + " + " + sub("int"))
		case 2:
			return par(sub("str") + " + " + g.lit("float"))
		case 3:
			return par(sub("str") + " + nil")
		case 4:
			return par(g.lit("str") + " * " + g.pick("0", "1", "2", "3"))
		default:
			return par(sub("str") + " + " + sub("str"))
		}
	case "bool":
		cmp := g.pick("==", "!=", "<", "<=", ">", ">=")
		switch g.r.Intn(6) {
		case 0:
			return par(sub("int") + " " + cmp + " " + sub("int"))
		case 1:
			return par(sub("str") + " " + cmp + " " + sub("str"))
		case 2:
			return par(sub("int") + " " + cmp + " " + sub("float"))
		case 3:
			return "not " + g.expr(kinds[g.r.Intn(5)], d-1)
		case 4:
			return par(g.expr(kinds[g.r.Intn(5)], d-1) + " " + g.pick("==", "!=") + " " + g.expr(kinds[g.r.Intn(5)], d-1))
		default:
			return par(sub("bool") + " == " + sub("bool"))
		}
	}
	return "nil"
}

func (g *progen) anyKind() string { return kinds[g.r.Intn(4)] } // nil only rarely as a declared kind

func (g *progen) declared(name string) bool {
	from := 0
	if len(g.marks) > 0 {
		from = g.marks[len(g.marks)-1]
	}
	for _, v := range g.vars[from:] {
		if v.name == name {
			return true
		}
	}
	return false
}

// stmts appends n statements at the current nesting depth
func (g *progen) stmts(sb *strings.Builder, n, depth int) {
	ind := strings.Repeat("  ", depth)
	semi := func() string {
		if g.r.Intn(4) == 0 {
			return ";"
		}
		return ""
	}
	for i := 0; i < n; i++ {
		switch k := g.r.Intn(12); {
		case k <= 1:
			name := g.pick("x", "y", "z", "w") + g.pick("", "", "1")
			if g.declared(name) {
				continue
			}
			kind := g.anyKind()
			if g.r.Intn(6) == 0 {
				fmt.Fprintf(sb, "%svar %s%s\n", ind, name, semi())
				g.vars = append(g.vars, pvar{name, "nil"})
			} else {
				fmt.Fprintf(sb, "%svar %s = %s%s\n", ind, name, g.expr(kind, 2), semi())
				g.vars = append(g.vars, pvar{name, kind})
			}
		case k <= 4:
			fmt.Fprintf(sb, "%sprint %s%s\n", ind, g.expr(g.anyKind(), 3), semi())
		case k == 5:
			fmt.Fprintf(sb, "%seval %s%s\n", ind, g.expr(g.anyKind(), 3), semi())
		case k <= 7 && depth < g.maxDepth:
			ty := g.blockTypes[g.r.Intn(len(g.blockTypes))]
			name := ""
			if g.r.Intn(2) == 0 {
				name = fmt.Sprintf(" \"n%d\"", g.nblocks[ty])
			} else if depth > 0 {
				// an unnamed child: only one per type and parent, else the keys collide (sometimes wanted)
				if g.r.Intn(5) != 0 {
					name = fmt.Sprintf(" \"u%d\"", g.nblocks[ty])
				}
			}
			g.nblocks[ty]++
			fmt.Fprintf(sb, "%sdef %s%s {\n", ind, ty, name)
			g.marks = append(g.marks, len(g.vars))
			g.fields = append(g.fields, nil)
			g.stmts(sb, g.r.Intn(5), depth+1)
			g.fields = g.fields[:len(g.fields)-1]
			g.vars = g.vars[:g.marks[len(g.marks)-1]]
			g.marks = g.marks[:len(g.marks)-1]
			fmt.Fprintf(sb, "%s}%s\n", ind, semi())
		case k <= 9 && depth > 0:
			// field assignment / bare expression (only a variable of the same name would capture it)
			name := g.pick("f", "g", "h", "port", "host")
			kind := g.anyKind()
			isVar := false
			for _, v := range g.vars {
				if v.name == name {
					isVar = true
				}
			}
			fmt.Fprintf(sb, "%s%s = %s%s\n", ind, name, g.expr(kind, 2), semi())
			if !isVar {
				fs := &g.fields[len(g.fields)-1]
				replaced := false
				for j := range *fs {
					if (*fs)[j].name == name {
						(*fs)[j].kind = kind
						replaced = true
					}
				}
				if !replaced {
					*fs = append(*fs, pvar{name, kind})
				}
			}
		case k == 10 && depth > 0:
			fmt.Fprintf(sb, "%sprint TYPE + \"/\" + NAME\n", ind)
		case k == 11 && depth == 0 && len(g.nblocks) > 0 && g.r.Intn(3) == 0:
			ty := g.blockTypes[g.r.Intn(len(g.blockTypes))]
			fmt.Fprintf(sb, "bind %s%s -> %s\n", ty, g.pick("", ":1", ":first", ":last", ":all"), g.pick("struct", "slice", "slice"))
		default:
			fmt.Fprintf(sb, "%seval %s%s\n", ind, g.expr("int", 2), semi())
		}
	}
}

// program returns one random program of about n toplevel statements
func (g *progen) program(n int) string {
	g.vars, g.marks, g.fields = nil, nil, nil
	g.nblocks = map[string]int{}
	var sb strings.Builder
	g.stmts(&sb, n, 0)
	return sb.String()
}
