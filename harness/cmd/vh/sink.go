package main

import (
	"sync/atomic"

	"github.com/wkhere/bcl"
)

// The hook sink of package bcl is installed once, before any goroutine of bcl exists, and never written again: goroutines of
// a finished call may still emit their last events (the reader closes its input after ParseFile has returned), so swapping the
// package variable itself would be a data race of the harness. Drivers swap the atomic pointer instead.
var curSink atomic.Pointer[func(bcl.VerifEvent)]

func setSink(f func(bcl.VerifEvent)) {
	if f == nil {
		curSink.Store(nil)
		return
	}
	curSink.Store(&f)
}

func init() {
	bcl.VerifSink = func(e bcl.VerifEvent) {
		if f := curSink.Load(); f != nil {
			(*f)(e)
		}
	}
}
