package main

import (
	"bufio"
	"bytes"
	"encoding/json"
	"fmt"
	"io"
	"os"

	"github.com/wkhere/bcl"
)

// mkdumps: takes cases with a "src" (any family), parses each distinct source with the real compiler and writes the dump of every
// accepted program as one ndjson line {"dump": [...]} for TLC (Trace_Dumps); a side file keeps the sources by line number.
func mkdumps(args []string) int {
	op := parseOpts(args)
	max := op.int("max", 1000)
	maxLen := op.int("maxlen", 1500)
	stride := op.int("stride", 1)
	seed := op.int("seed", 1)
	outp := op.str("out", "dumps.ndjson")
	s := newSummary("dumps")
	f, err := os.Create(outp)
	if err != nil {
		fmt.Fprintln(os.Stderr, err)
		return 2
	}
	defer f.Close()
	w := bufio.NewWriter(f)
	defer w.Flush()
	sf, _ := os.Create(outp + ".src")
	defer sf.Close()
	n, seen := 0, 0
	eachCase(openIn(op), func(raw []byte) {
		var c struct {
			Src   []int  `json:"src"`
			Shape string `json:"shape"`
			N     int    `json:"n"`
			Kind  string `json:"kind"`
			Fam   string `json:"fam"`
		}
		if json.Unmarshal(raw, &c) != nil || (len(c.Src) == 0 && c.Shape == "" && c.Fam != "format") {
			return
		}
		src := bytesOf(c.Src)
		if c.Shape != "" {
			src = []byte(scaleSource(c.Shape, c.N))
		}
		if c.Fam == "format" {
			// scaling-law programs of Gen_Format (string constants, identifiers, offsets of n bytes), the sizes TLC can decode
			if c.Kind == "header" || c.Kind == "bytes" || c.Kind == "name" || c.N > 2400 {
				return
			}
			src, _ = sizeSource(c.Kind, c.N)
		}
		if !s.note(src, true, raw) || n >= max {
			return
		}
		seen++
		// a thinning that does not depend on the order of the sources: by content hash (all sources are thinned alike, none is
		// cut off by the cap because it comes late)
		if !thinKeep(src, stride, seed) {
			return
		}
		var p *bcl.Prog
		func() {
			defer func() { recover() }()
			p, err = bcl.Parse(src, "d", bcl.OptLogger(io.Discard), bcl.OptOutput(io.Discard))
		}()
		if err != nil || p == nil {
			return
		}
		var b bytes.Buffer
		if p.Dump(&b) != nil || b.Len() > maxLen {
			return
		}
		js, _ := json.Marshal(map[string]any{"dump": intsOf(b.Bytes())})
		w.Write(js)
		w.WriteByte('\n')
		sj, _ := json.Marshal(map[string]any{"k": n + 1, "src": string(src)})
		sf.Write(append(sj, '\n'))
		n++
		s.Judged++
	})
	s.Extra["dumps"] = n
	return s.write(op)
}

func init() { register("mkdumps", mkdumps) }
