#!/bin/sh
# Offline setup: builds the harness once from files on disk (every check rebuilds it anyway from /repo's working tree).
set -e
cd "$(dirname "$0")"
export GOFLAGS=-mod=mod GOPROXY=off GOSUMDB=off GOTOOLCHAIN=local
mkdir -p out/bin evidence
cat /repo/go.sum harness/go.sum.extra > harness/go.sum
(cd harness && go build -tags verif -o ../out/bin/vh ./cmd/vh)
tla-sany >/dev/null 2>&1 || true
echo "setup ok"
