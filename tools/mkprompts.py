import json, glob, os, subprocess
props = [json.loads(l) for l in open('/verif/properties.jsonl')]
for p in props:
    pid = p['id']
    W = '/tmp/mut/%s' % pid
    if not os.path.isdir(W):
        subprocess.check_call(['git','-C','/repo','worktree','add','-q','--detach',W,'HEAD'])
    os.makedirs(W+'/out/m1', exist_ok=True); os.makedirs(W+'/out/m2', exist_ok=True)
    earlier = []
    for d in sorted(glob.glob('/verif/seeded/%s-*' % pid)):
        try:
            m = json.load(open(d+'/meta.json')); earlier.append('- ' + m['summary'].split('. ')[0][:260])
        except Exception as e: pass
    text = f"""# Task: two independent breaking changes for one property of wkhere/bcl

You are working in a scratch git worktree of the Go library wkhere/bcl at `{W}` (a small HCL-like configuration
language: streaming lexer, Pratt parser emitting bytecode, stack VM, bytecode dump/load, reflection-based struct binding,
and a CLI under cmd/bcl). Work ONLY inside `{W}`. Never touch /repo or /verif and do not read anything under /verif.
There is no network. In every shell call first run:
`export GOFLAGS=-mod=mod GOPROXY=off GOSUMDB=off GOTOOLCHAIN=local`

Files `verif_on.go`/`verif_off.go` and calls like `verifEmit(...)`/`VerifSink` are inert instrumentation (build tag `verif`);
leave them alone and do not rely on them.

## The property (this is all you know about what will be checked)

id: {pid}
title: {p.get('title','')}

statement: {p.get('statement','')}

quantifier: {json.dumps(p.get('quantifier',''))}

why unit tests cannot settle it: {p.get('why_tests_cant','')}

anchors: {json.dumps(p.get('anchors', p.get('code_anchors','')))}

## What to produce

TWO different, independent changes (m1 and m2) to the library/CLI source (non-test .go files), each of which:

1. still compiles (`go build ./...`) and still passes the whole existing test suite unchanged
   (`go test -vet=off -count=1 ./...` in `{W}`) — verify this yourself;
2. BREAKS the property above — in a way a plausible refactoring, optimisation, tidy-up or "hardening" by a maintainer could
   introduce (realistic, small, looks fine in review);
3. needs something SPECIFIC to manifest — a particular interleaving, a fault at a particular point, a multi-step sequence of
   calls, an unusual input / size / boundary, state left by an earlier call, or two cooperating edits that each look fine alone —
   NOT something that ordinary use or a trivial smoke test exposes at once;
4. comes with a demonstration: one Go test file (package bcl or bcl_test, or for CLI changes a test that builds/runs cmd/bcl)
   that PASSES on the unmodified code and FAILS with the change (running with `go test -vet=off -count=1 .` from the worktree
   root after copying the file there; if it only shows under `-race`, say so and make each Test function show it when run alone
   with `go test -race -run '^TestName$' .`).

The two changes must differ in kind and location from each other AND from these earlier ideas (already used — avoid them and
close variants of them):

{chr(10).join(earlier)}

Prefer corners not touched above: different functions, different data shapes, different boundaries, state carried between calls,
rarely combined options, less-used API entry points (Interpret, Parse+Execute, ParseFile, InterpretFile, Unmarshal, UnmarshalFile,
Bind, AppendBind?, LoadProg, Prog.Load, Prog.Dump, options OptDisasm/OptTrace/OptStats/OptOutput/OptLogger..., the CLI flags).
Read the code to find what actually exists.

## Deliverables (exact layout)

For k in 1, 2 write into `{W}/out/m<k>/`:
- `patch.diff` — `git diff` of the change against the worktree's HEAD (only non-test source files; must apply with `git apply` at the worktree root on a clean checkout);
- `demo_test.go` — the demonstration test file (unique Test function names containing `{pid}R7M<k>`);
- `meta.json` — {{"property": "{pid}", "summary": "<what was changed, first sentence self-contained>", "needs": "<what it needs in order to manifest>", "demo_cmd": "<command>", "verified": "<what you ran and saw, with and without the change>"}}

When finished, leave the worktree CLEAN (`git checkout -- .` and remove any copied demo files from the root; the `out/` directory stays).
Report in your final message one line per change: the summary and whether all four verifications succeeded.
"""
    open(W+'/TASK.md','w').write(text)
print('ok')
