#!/bin/bash
# trial.sh <ID> [checks...] : sync /verif to /tmp/vtrial-<ID> and try both mutants of <ID> there
ID=$1; shift
V=/tmp/vtrial-$ID
rsync -a --delete --exclude out --exclude .git /verif/ $V/
mkdir -p $V/out
for k in 1 2; do
  [ -f /tmp/mut/$ID/out/m$k/patch.diff ] || { echo "$ID m$k: no patch"; continue; }
  VERIF_DIR=$V /verif/tools/try_mutant.sh $ID $k "$@"
done
