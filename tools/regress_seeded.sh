#!/bin/bash
# regress_seeded.sh [property ids...] : every seeded change under /verif/seeded is applied to a scratch worktree of /repo (HEAD),
# the check of its property is run against that worktree (VERIF_REPO), and the worktree is removed afterwards. /repo is not touched.
# One line per change: name, check, exit status (1 = reported), first shape. Changes recorded as detected by another property's
# check are run against that one.
set -u
export GOFLAGS=-mod=mod GOPROXY=off GOSUMDB=off GOTOOLCHAIN=local
V=$(cd "$(dirname "$0")/.." && pwd)
IDS=${*:-$(ls $V/seeded | cut -c1-3 | sort -u)}
for P in $IDS; do
  W=$(mktemp -d /tmp/regress-$P-XXXX); rmdir $W
  git -C /repo worktree add -q --detach $W HEAD || exit 2
  for d in $V/seeded/$P-*; do
    name=$(basename $d); chk=$P
    case $name in C20-r3m2|C20-r2m2) chk=C07;; esac
    git -C $W reset -q --hard; git -C $W clean -qfd
    if ! git -C $W apply $d/patch.diff 2>/dev/null && ! git -C $W apply -3 $d/patch.diff 2>/dev/null; then echo "$name APPLY-FAILED"; continue; fi   # -3: hook commits made after the patch was written may have moved its context
    (cd $V && VERIF_REPO=$W ./check $chk > $V/out/regress-$name.log 2>&1); rc=$?
    echo "$name check=$chk exit=$rc $(grep -m1 'shape=' $V/out/regress-$name.log | sed 's/^ *//' | cut -c1-120)"
  done
  git -C /repo worktree remove --force $W
done
