#!/bin/bash
# try_mutant.sh <ID> <k> [check ids...] : verify a seeded change in its scratch worktree, then run the checks against it in /repo and undo it.
set -u
ID=$1; K=$2; shift 2
CHECKS=${*:-$ID}
W=/tmp/mut/$ID; M=$W/out/m$K
export GOFLAGS=-mod=mod GOPROXY=off GOSUMDB=off GOTOOLCHAIN=local
cd $W || exit 2
git checkout -q -- . ; rm -f zz_demo_test.go
DEMO=$(ls $M/*_test.go | head -1)
# 1. unmodified: demo passes
cp $DEMO zz_demo_test.go
go test -vet=off -count=1 . > $M/clean.log 2>&1; CLEAN=$?
rm -f zz_demo_test.go
# 2. modified: suite passes, demo fails
git apply $M/patch.diff || { echo "patch does not apply"; exit 2; }
go build ./... > $M/build.log 2>&1; BUILD=$?
go test -vet=off -count=1 . ./cmd/... > $M/suite.log 2>&1; SUITE=$?
cp $DEMO zz_demo_test.go
go test -vet=off -count=1 . > $M/mut.log 2>&1; MUT=$?
if [ $MUT -eq 0 ]; then
  # some demonstrations only show under the race detector, and only when run alone (state set up by earlier tests hides them)
  for t in $(grep -o 'func Test[A-Za-z0-9_]*' $DEMO | sed 's/func //'); do
    go test -race -vet=off -count=1 -run "^$t\$" . >> $M/mut.log 2>&1 || MUT=1
  done
fi
rm -f zz_demo_test.go; git checkout -q -- .
echo "verify $ID m$K: demo-on-clean=$CLEAN build=$BUILD suite-with-change=$SUITE demo-with-change=$MUT (want 0 0 0 non-zero)"
if [ $CLEAN -ne 0 ] || [ $BUILD -ne 0 ] || [ $SUITE -ne 0 ] || [ $MUT -eq 0 ]; then echo "NOT CONFIRMED"; exit 3; fi
# 3. the checks against the change: applied in the scratch worktree, which the checks build from via VERIF_REPO
#    (equivalent to `git -C /repo apply`; /repo itself stays untouched so that other runs are not disturbed)
cd $W && git apply $M/patch.diff || { echo "patch does not apply"; exit 2; }
cd ${VERIF_DIR:-/verif}
for c in $CHECKS; do
  VERIF_REPO=$W ./check $c > $M/check-$c.log 2>&1; RC=$?
  echo "check $c on $ID m$K: exit $RC  $(grep -c '^VIOLATION' $M/check-$c.log) violation line(s)  $(grep -m1 'shape=' $M/check-$c.log | sed 's/^ *//' | cut -c1-160)"
done
cd $W && git checkout -q -- .
