#!/bin/bash
# selftest_load.sh: demonstrates that Trace_Load is bound to what the real loader did. Records a few real LoadProg runs, then corrupts
# one field per record (a section count, a removed hook event, the returned label, an inserted read, a byte of the re-dump) and
# shows the verdict of the trace judge for each; the untouched record must stay "ok". Exit 0 iff the six verdicts are the expected ones.
set -e
V=$(cd "$(dirname "$0")/.." && pwd); T=$(mktemp -d /tmp/selftest-load-XXXX); trap 'rm -rf $T' EXIT
export GOFLAGS=-mod=mod GOPROXY=off GOSUMDB=off GOTOOLCHAIN=local JAVA_TOOL_OPTIONS=-Xss64m
cat /repo/go.sum $V/harness/go.sum.extra > $V/harness/go.sum
(cd $V/harness && go build -tags verif -o $T/vh ./cmd/vh)
$T/vh drive-load --n 12 --seed 3 --out $T/all.ndjson --result $T/r.json
python3 - $T <<'PY'
import json, copy, sys
T = sys.argv[1]
L = [json.loads(l) for l in open(T + '/all.ndjson')]
w = [r for r in L if r['cut'] == r['full'] and len(r['evs']) > 8 and all(e['b'] == 0 or e['n'] == 0 for e in r['evs'] if e['t'] == 'rd')][:4]
a = copy.deepcopy(w[0]); [e for e in a['evs'] if e['t'] == 'ld' and e['a'] == 2][0]['b'] += 1
b = copy.deepcopy(w[1]); b['evs'] = [e for e in b['evs'] if not (e['t'] == 'ld' and e['a'] == 3)]
c = copy.deepcopy(w[2]); c['ret'] = 'constant'
d = copy.deepcopy(w[3]); i = [k for k, e in enumerate(d['evs']) if e['t'] == 'ld'][0]; d['evs'].insert(i + 1, {'t': 'rd', 'n': 0, 'a': 0, 'b': 1})
e = copy.deepcopy(w[0]); e['redump'][-1] = (e['redump'][-1] + 1) % 256
open(T + '/loadruns.ndjson', 'w').write("\n".join(json.dumps(x) for x in [a, b, c, d, e, w[0]]) + "\n")
PY
cp $V/spec/*.tla $T/ && printf 'SPECIFICATION Spec\nINVARIANT Tally\nCHECK_DEADLOCK FALSE\n' > $T/Trace_Load.cfg
(cd $T && timeout 300 tlc -workers 2 -metadir $T/md Trace_Load > $T/tlc.out 2>&1) || true
got=$(grep -o '"VERDICT", [0-9]*, "[a-z0-9-]*"' $T/tlc.out | sort | awk -F'"' '{print $4}' | tr '\n' ' ')
echo "verdicts: $got"
[ "$got" = "section-mismatch section-event-missing verdict-mismatch end-not-needed parts-mismatch ok " ]
