#!/usr/bin/env python3
"""save_mutant.py <ID> <k> <name> <first_pass: caught|missed> <detected_by text> [extended text]
Copies a confirmed sub-agent change from /tmp/mut/<ID>/out/m<k> into /verif/seeded/<name>/ (patch.diff, demo, meta.json)."""
import json, os, shutil, sys, glob
pid, k, name, first, det = sys.argv[1:6]
ext = sys.argv[6] if len(sys.argv) > 6 else ""
src = "/tmp/mut/%s/out/m%s" % (pid, k)
dst = "/verif/seeded/%s" % name
os.makedirs(dst, exist_ok=True)
shutil.copy(src + "/patch.diff", dst + "/patch.diff")
demo = sorted(glob.glob(src + "/*_test.go"))[0]
shutil.copy(demo, dst + "/demo_test.go.txt")
m = json.load(open(src + "/meta.json"))
m["origin"] = (os.environ.get("ROUND", "third") + " round: written by an independent sub-agent that saw only the property text, its own scratch worktree and the "
               "one-line summaries of the earlier rounds' changes to avoid")
m["confirmed_by_me"] = "tools/try_mutant.sh: demo passes on the unmodified worktree, the change builds and passes the existing tests, demo fails with the change"
m["first_pass"] = first
m["detected_by"] = det
if ext:
    m["extended"] = ext
logs = sorted(glob.glob(src + "/check-*.log"), key=os.path.getmtime)
out = []
for lg in logs[-2:]:
    for l in open(lg):
        l = l.strip()
        if l.startswith("VIOLATION") or l.startswith("stage="):
            out.append(l[:400])
m["check_output"] = out[:6]
json.dump(m, open(dst + "/meta.json", "w"), indent=1)
print(name, len(out))
