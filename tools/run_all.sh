#!/bin/bash
# run_all.sh [tier] [seed]: every check once; prints id, exit status and wall time
TIER=${1:-quick}; SEED=${2:-1}
cd "$(dirname "$0")/.." && mkdir -p out evidence
IDS=${IDS:-$(python3 -c "import json;print(' '.join(c['property_id'] for c in json.load(open('MANIFEST.json'))['checks']))")}
for id in $IDS; do
  s=$(date +%s)
  VERIF_SEED=$SEED ./check $id --tier $TIER > out/last-$id.log 2>&1; rc=$?
  e=$(date +%s)
  echo "$id exit=$rc $((e-s))s $(grep -c '^VIOLATION' out/last-$id.log) violations $(grep -c '^DRIFT' out/last-$id.log) drift $(grep -c '^KNOWN-FINDING' out/last-$id.log) known"
done
